/- GENERATED on every run by go/decoders from the source text of the constructors, Decode, decodeOne, GetError, Encode,
   String, IsEmpty and GetVersion of /repo/v3/metric and /repo/v2/metric — do not edit.  `none` is a run-time panic. -/
import CvssVerif.Basic.GoRt
import CvssVerif.Generated.Tables
set_option linter.unusedVariables false

namespace CvssVerif.Gen.D3
open CvssVerif CvssVerif.GoRt CvssVerif.V3

-- @def GetVersion
@[gdec] def GetVersion (vec_ : Bytes) : Option (Int × Option Err) :=
  let v_ : List Bytes := (split 58 vec_)
  if ((v_).length != (2 : Nat)) then
    some ((0 : Int), (some Err.invalidVector))
  else
    if ((0 : Nat) < (v_).length) then
      if (((v_).getD (0 : Nat) []) != ([67, 86, 83, 83] : Bytes)) then
        some ((0 : Int), (some Err.invalidVector))
      else
        if ((1 : Nat) < (v_).length) then
          some ((Gen.T3.get ((v_).getD (1 : Nat) [])), (none : Option Err))
        else none
    else none

-- @def NewBase
@[gdec] def NewBase : Obj3 :=
  (fun o => o.set .A 0) ((fun o => o.set .I 0) ((fun o => o.set .C 0) ((fun o => o.set .S 0) ((fun o => o.set .UI 0) ((fun o => o.set .PR 0) ((fun o => o.set .AC 0) ((fun o => o.set .AV 0) ((fun o => { o with ver := 0 }) ((⟨0, fun _ => 0, fun _ => false⟩ : Obj3))))))))))

-- @def NewTemporal
@[gdec] def NewTemporal : Obj3 :=
  (fun o => o.set .RC 1) ((fun o => o.set .RL 1) ((fun o => o.set .E 1) (Gen.D3.NewBase)))

-- @def NewEnvironmental
@[gdec] def NewEnvironmental : Obj3 :=
  (fun o => o.set .MA 1) ((fun o => o.set .MI 1) ((fun o => o.set .MC 1) ((fun o => o.set .MS 1) ((fun o => o.set .MUI 1) ((fun o => o.set .MPR 1) ((fun o => o.set .MAC 1) ((fun o => o.set .MAV 1) ((fun o => o.set .AR 1) ((fun o => o.set .IR 1) ((fun o => o.set .CR 1) (Gen.D3.NewTemporal)))))))))))

-- @def Base_GetError
@[gdec] def Base_GetError (o : Obj3) : Option (Obj3 × Option Err) :=
  if (o.ver == (0 : Int)) then
    some (o, (some Err.notSupportVer))
  else
    if ((Gen.T3.AttackVector_IsUnknown (o.field .AV)) || (Gen.T3.AttackComplexity_IsUnknown (o.field .AC)) || (Gen.T3.PrivilegesRequired_IsUnknown (o.field .PR)) || (Gen.T3.UserInteraction_IsUnknown (o.field .UI)) || (Gen.T3.Scope_IsUnknown (o.field .S)) || (Gen.T3.ConfidentialityImpact_IsUnknown (o.field .C)) || (Gen.T3.IntegrityImpact_IsUnknown (o.field .I)) || (Gen.T3.AvailabilityImpact_IsUnknown (o.field .A))) then
      some (o, (some Err.noBaseMetrics))
    else
      some (o, (none : Option Err))

-- @def Base_GetError_nil
@[gdec] def Base_GetError_nil  : Option (Option Obj3 × Option Err) :=
  some (none, (some Err.noBaseMetrics))

-- @def Temporal_GetError
@[gdec] def Temporal_GetError (o : Obj3) : Option (Obj3 × Option Err) :=
  match Gen.D3.Base_GetError o  with
    | none => none
    | some (o, t1_) =>
      let err_ : Option Err := t1_
      if (err_).isSome then
        some (o, err_)
      else
        if ((!(Gen.T3.Exploitability_IsValid (o.field .E))) || (!(Gen.T3.RemediationLevel_IsValid (o.field .RL))) || (!(Gen.T3.ReportConfidence_IsValid (o.field .RC)))) then
          some (o, (some Err.invalidValue))
        else
          some (o, (none : Option Err))

-- @def Temporal_GetError_nil
@[gdec] def Temporal_GetError_nil  : Option (Option Obj3 × Option Err) :=
  some (none, (some Err.noTemporalMetrics))

-- @def Environmental_GetError
@[gdec] def Environmental_GetError (o : Obj3) : Option (Obj3 × Option Err) :=
  match Gen.D3.Temporal_GetError o  with
    | none => none
    | some (o, t1_) =>
      let err_ : Option Err := t1_
      if (err_).isSome then
        some (o, err_)
      else
        if ((!(Gen.T3.ConfidentialityRequirement_IsValid (o.field .CR))) || (!(Gen.T3.IntegrityRequirement_IsValid (o.field .IR))) || (!(Gen.T3.AvailabilityRequirement_IsValid (o.field .AR))) || (!(Gen.T3.ModifiedAttackVector_IsValid (o.field .MAV))) || (!(Gen.T3.ModifiedAttackComplexity_IsValid (o.field .MAC))) || (!(Gen.T3.ModifiedPrivilegesRequired_IsValid (o.field .MPR))) || (!(Gen.T3.ModifiedUserInteraction_IsValid (o.field .MUI))) || (!(Gen.T3.ModifiedScope_IsValid (o.field .MS))) || (!(Gen.T3.ModifiedConfidentialityImpact_IsValid (o.field .MC))) || (!(Gen.T3.ModifiedIntegrityImpact_IsValid (o.field .MI))) || (!(Gen.T3.ModifiedAvailabilityImpact_IsValid (o.field .MA)))) then
          some (o, (some Err.invalidValue))
        else
          some (o, (none : Option Err))

-- @def Environmental_GetError_nil
@[gdec] def Environmental_GetError_nil  : Option (Option Obj3 × Option Err) :=
  some (none, (some Err.noEnvironmentalMetrics))

-- @def Base_Encode
@[gdec] def Base_Encode (o : Obj3) : Option (Obj3 × (Bytes × Option Err)) :=
  let r_ : List Bytes := ([] : List Bytes)
  let r_ : List Bytes := (if (o.ver != (0 : Int)) then (
      let r_ : List Bytes := (r_ ++ [(([67, 86, 83, 83] : Bytes) ++ ([58] : Bytes) ++ (Gen.T3.Version_String o.ver))])
      r_
    ) else r_)
  let r_ : List Bytes := (if (o.named .AV) then (
      let r_ : List Bytes := (r_ ++ [(([65, 86] : Bytes) ++ ([58] : Bytes) ++ (Gen.T3.AttackVector_String (o.field .AV)))])
      r_
    ) else r_)
  let r_ : List Bytes := (if (o.named .AC) then (
      let r_ : List Bytes := (r_ ++ [(([65, 67] : Bytes) ++ ([58] : Bytes) ++ (Gen.T3.AttackComplexity_String (o.field .AC)))])
      r_
    ) else r_)
  let r_ : List Bytes := (if (o.named .PR) then (
      let r_ : List Bytes := (r_ ++ [(([80, 82] : Bytes) ++ ([58] : Bytes) ++ (Gen.T3.PrivilegesRequired_String (o.field .PR)))])
      r_
    ) else r_)
  let r_ : List Bytes := (if (o.named .UI) then (
      let r_ : List Bytes := (r_ ++ [(([85, 73] : Bytes) ++ ([58] : Bytes) ++ (Gen.T3.UserInteraction_String (o.field .UI)))])
      r_
    ) else r_)
  let r_ : List Bytes := (if (o.named .S) then (
      let r_ : List Bytes := (r_ ++ [(([83] : Bytes) ++ ([58] : Bytes) ++ (Gen.T3.Scope_String (o.field .S)))])
      r_
    ) else r_)
  let r_ : List Bytes := (if (o.named .C) then (
      let r_ : List Bytes := (r_ ++ [(([67] : Bytes) ++ ([58] : Bytes) ++ (Gen.T3.ConfidentialityImpact_String (o.field .C)))])
      r_
    ) else r_)
  let r_ : List Bytes := (if (o.named .I) then (
      let r_ : List Bytes := (r_ ++ [(([73] : Bytes) ++ ([58] : Bytes) ++ (Gen.T3.IntegrityImpact_String (o.field .I)))])
      r_
    ) else r_)
  let r_ : List Bytes := (if (o.named .A) then (
      let r_ : List Bytes := (r_ ++ [(([65] : Bytes) ++ ([58] : Bytes) ++ (Gen.T3.AvailabilityImpact_String (o.field .A)))])
      r_
    ) else r_)
  match Gen.D3.Base_GetError o  with
    | none => none
    | some (o, t1_) =>
      some (o, ((join 47 r_), t1_))

-- @def Base_Encode_nil
@[gdec] def Base_Encode_nil  : Option (Option Obj3 × (Bytes × Option Err)) :=
  some (none, (([] : Bytes), (some Err.noBaseMetrics)))

-- @def Temporal_Encode
@[gdec] def Temporal_Encode (o : Obj3) : Option (Obj3 × (Bytes × Option Err)) :=
  match Gen.D3.Base_Encode o  with
    | none => none
    | some (o, (t1_, t2_)) =>
      let bs_ : Bytes := t1_
      let r_ : Bytes := ([] : Bytes)
      let r_ : Bytes := r_ ++ bs_
      let r_ : Bytes := r_ ++ (([47] : Bytes) ++ ([69] : Bytes) ++ ([58] : Bytes) ++ (Gen.T3.Exploitability_String (o.field .E)))
      let r_ : Bytes := r_ ++ (([47] : Bytes) ++ ([82, 76] : Bytes) ++ ([58] : Bytes) ++ (Gen.T3.RemediationLevel_String (o.field .RL)))
      let r_ : Bytes := r_ ++ (([47] : Bytes) ++ ([82, 67] : Bytes) ++ ([58] : Bytes) ++ (Gen.T3.ReportConfidence_String (o.field .RC)))
      match Gen.D3.Temporal_GetError o  with
        | none => none
        | some (o, t3_) =>
          some (o, (r_, t3_))

-- @def Temporal_Encode_nil
@[gdec] def Temporal_Encode_nil  : Option (Option Obj3 × (Bytes × Option Err)) :=
  some (none, (([] : Bytes), (some Err.noTemporalMetrics)))

-- @def Environmental_Encode
@[gdec] def Environmental_Encode (o : Obj3) : Option (Obj3 × (Bytes × Option Err)) :=
  match Gen.D3.Environmental_GetError o  with
    | none => none
    | some (o, t1_) =>
      let err_ : Option Err := t1_
      if (err_).isSome then
        some (o, (([] : Bytes), err_))
      else
        match Gen.D3.Temporal_Encode o  with
          | none => none
          | some (o, (t2_, t3_)) =>
            let ts_ : Bytes := t2_
            let r_ : Bytes := ([] : Bytes)
            let r_ : Bytes := r_ ++ ts_
            let r_ : Bytes := r_ ++ (([47] : Bytes) ++ ([67, 82] : Bytes) ++ ([58] : Bytes) ++ (Gen.T3.ConfidentialityRequirement_String (o.field .CR)))
            let r_ : Bytes := r_ ++ (([47] : Bytes) ++ ([73, 82] : Bytes) ++ ([58] : Bytes) ++ (Gen.T3.IntegrityRequirement_String (o.field .IR)))
            let r_ : Bytes := r_ ++ (([47] : Bytes) ++ ([65, 82] : Bytes) ++ ([58] : Bytes) ++ (Gen.T3.AvailabilityRequirement_String (o.field .AR)))
            let r_ : Bytes := r_ ++ (([47] : Bytes) ++ ([77, 65, 86] : Bytes) ++ ([58] : Bytes) ++ (Gen.T3.ModifiedAttackVector_String (o.field .MAV)))
            let r_ : Bytes := r_ ++ (([47] : Bytes) ++ ([77, 65, 67] : Bytes) ++ ([58] : Bytes) ++ (Gen.T3.ModifiedAttackComplexity_String (o.field .MAC)))
            let r_ : Bytes := r_ ++ (([47] : Bytes) ++ ([77, 80, 82] : Bytes) ++ ([58] : Bytes) ++ (Gen.T3.ModifiedPrivilegesRequired_String (o.field .MPR)))
            let r_ : Bytes := r_ ++ (([47] : Bytes) ++ ([77, 85, 73] : Bytes) ++ ([58] : Bytes) ++ (Gen.T3.ModifiedUserInteraction_String (o.field .MUI)))
            let r_ : Bytes := r_ ++ (([47] : Bytes) ++ ([77, 83] : Bytes) ++ ([58] : Bytes) ++ (Gen.T3.ModifiedScope_String (o.field .MS)))
            let r_ : Bytes := r_ ++ (([47] : Bytes) ++ ([77, 67] : Bytes) ++ ([58] : Bytes) ++ (Gen.T3.ModifiedConfidentialityImpact_String (o.field .MC)))
            let r_ : Bytes := r_ ++ (([47] : Bytes) ++ ([77, 73] : Bytes) ++ ([58] : Bytes) ++ (Gen.T3.ModifiedIntegrityImpact_String (o.field .MI)))
            let r_ : Bytes := r_ ++ (([47] : Bytes) ++ ([77, 65] : Bytes) ++ ([58] : Bytes) ++ (Gen.T3.ModifiedAvailabilityImpact_String (o.field .MA)))
            match Gen.D3.Environmental_GetError o  with
              | none => none
              | some (o, t4_) =>
                some (o, (r_, t4_))

-- @def Environmental_Encode_nil
@[gdec] def Environmental_Encode_nil  : Option (Option Obj3 × (Bytes × Option Err)) :=
  some (none, (([] : Bytes), (some Err.noEnvironmentalMetrics)))

-- @def Base_String
@[gdec] def Base_String (o : Obj3) : Option (Obj3 × Bytes) :=
  match Gen.D3.Base_Encode o  with
    | none => none
    | some (o, (t1_, t2_)) =>
      let s_ : Bytes := t1_
      some (o, s_)

-- @def Base_String_nil
@[gdec] def Base_String_nil  : Option (Option Obj3 × Bytes) :=
  match Gen.D3.Base_Encode_nil  with
    | none => none
    | some (_, (t1_, t2_)) =>
      let s_ : Bytes := t1_
      some (none, s_)

-- @def Temporal_String
@[gdec] def Temporal_String (o : Obj3) : Option (Obj3 × Bytes) :=
  match Gen.D3.Temporal_Encode o  with
    | none => none
    | some (o, (t1_, t2_)) =>
      let s_ : Bytes := t1_
      some (o, s_)

-- @def Temporal_String_nil
@[gdec] def Temporal_String_nil  : Option (Option Obj3 × Bytes) :=
  match Gen.D3.Temporal_Encode_nil  with
    | none => none
    | some (_, (t1_, t2_)) =>
      let s_ : Bytes := t1_
      some (none, s_)

-- @def Environmental_String
@[gdec] def Environmental_String (o : Obj3) : Option (Obj3 × Bytes) :=
  match Gen.D3.Environmental_Encode o  with
    | none => none
    | some (o, (t1_, t2_)) =>
      let s_ : Bytes := t1_
      some (o, s_)

-- @def Environmental_String_nil
@[gdec] def Environmental_String_nil  : Option (Option Obj3 × Bytes) :=
  match Gen.D3.Environmental_Encode_nil  with
    | none => none
    | some (_, (t1_, t2_)) =>
      let s_ : Bytes := t1_
      some (none, s_)

-- @def Base_decodeOne
@[gdec] def Base_decodeOne (o : Obj3) (str_ : Bytes) : Option (Obj3 × Option Err) :=
  let m_ : List Bytes := (split 58 str_)
  if ((m_).length != (2 : Nat)) then
    some (o, (some Err.invalidVector))
  else
    if ((0 : Nat) < (m_).length) then
      if ((((m_).getD (0 : Nat) [])).length == (0 : Nat)) then
        some (o, (some Err.invalidVector))
      else
        if ((1 : Nat) < (m_).length) then
          if ((((m_).getD (1 : Nat) [])).length == (0 : Nat)) then
            some (o, (some Err.invalidVector))
          else
            if ((0 : Nat) < (m_).length) then
              let name_ : Bytes := ((m_).getD (0 : Nat) [])
              if (namesGet Level.base o name_) then
                some (o, (some Err.sameMetric))
              else
                if (name_ == ([65, 86] : Bytes)) then
                  if ((1 : Nat) < (m_).length) then
                    let o : Obj3 := o.set .AV (Gen.T3.GetAttackVector ((m_).getD (1 : Nat) []))
                    if ((o.field .AV) == (0 : Int)) then
                      some (o, (some Err.invalidValue))
                    else
                      let o : Obj3 := o.mark .AV
                      some (o, (none : Option Err))
                  else none
                else
                  if (name_ == ([65, 67] : Bytes)) then
                    if ((1 : Nat) < (m_).length) then
                      let o : Obj3 := o.set .AC (Gen.T3.GetAttackComplexity ((m_).getD (1 : Nat) []))
                      if ((o.field .AC) == (0 : Int)) then
                        some (o, (some Err.invalidValue))
                      else
                        let o : Obj3 := o.mark .AC
                        some (o, (none : Option Err))
                    else none
                  else
                    if (name_ == ([80, 82] : Bytes)) then
                      if ((1 : Nat) < (m_).length) then
                        let o : Obj3 := o.set .PR (Gen.T3.GetPrivilegesRequired ((m_).getD (1 : Nat) []))
                        if ((o.field .PR) == (0 : Int)) then
                          some (o, (some Err.invalidValue))
                        else
                          let o : Obj3 := o.mark .PR
                          some (o, (none : Option Err))
                      else none
                    else
                      if (name_ == ([85, 73] : Bytes)) then
                        if ((1 : Nat) < (m_).length) then
                          let o : Obj3 := o.set .UI (Gen.T3.GetUserInteraction ((m_).getD (1 : Nat) []))
                          if ((o.field .UI) == (0 : Int)) then
                            some (o, (some Err.invalidValue))
                          else
                            let o : Obj3 := o.mark .UI
                            some (o, (none : Option Err))
                        else none
                      else
                        if (name_ == ([83] : Bytes)) then
                          if ((1 : Nat) < (m_).length) then
                            let o : Obj3 := o.set .S (Gen.T3.GetScope ((m_).getD (1 : Nat) []))
                            if ((o.field .S) == (0 : Int)) then
                              some (o, (some Err.invalidValue))
                            else
                              let o : Obj3 := o.mark .S
                              some (o, (none : Option Err))
                          else none
                        else
                          if (name_ == ([67] : Bytes)) then
                            if ((1 : Nat) < (m_).length) then
                              let o : Obj3 := o.set .C (Gen.T3.GetConfidentialityImpact ((m_).getD (1 : Nat) []))
                              if ((o.field .C) == (0 : Int)) then
                                some (o, (some Err.invalidValue))
                              else
                                let o : Obj3 := o.mark .C
                                some (o, (none : Option Err))
                            else none
                          else
                            if (name_ == ([73] : Bytes)) then
                              if ((1 : Nat) < (m_).length) then
                                let o : Obj3 := o.set .I (Gen.T3.GetIntegrityImpact ((m_).getD (1 : Nat) []))
                                if ((o.field .I) == (0 : Int)) then
                                  some (o, (some Err.invalidValue))
                                else
                                  let o : Obj3 := o.mark .I
                                  some (o, (none : Option Err))
                              else none
                            else
                              if (name_ == ([65] : Bytes)) then
                                if ((1 : Nat) < (m_).length) then
                                  let o : Obj3 := o.set .A (Gen.T3.GetAvailabilityImpact ((m_).getD (1 : Nat) []))
                                  if ((o.field .A) == (0 : Int)) then
                                    some (o, (some Err.invalidValue))
                                  else
                                    let o : Obj3 := o.mark .A
                                    some (o, (none : Option Err))
                                else none
                              else
                                some (o, (some Err.notSupportMetric))
            else none
        else none
    else none

-- @def Base_decodeOne_nil
@[gdec] def Base_decodeOne_nil (str_ : Bytes) : Option (Option Obj3 × Option Err) :=
  let m_ : List Bytes := (split 58 str_)
  if ((m_).length != (2 : Nat)) then
    some (none, (some Err.invalidVector))
  else
    if ((0 : Nat) < (m_).length) then
      if ((((m_).getD (0 : Nat) [])).length == (0 : Nat)) then
        some (none, (some Err.invalidVector))
      else
        if ((1 : Nat) < (m_).length) then
          if ((((m_).getD (1 : Nat) [])).length == (0 : Nat)) then
            some (none, (some Err.invalidVector))
          else
            if ((0 : Nat) < (m_).length) then
              let name_ : Bytes := ((m_).getD (0 : Nat) [])
              none
            else none
        else none
    else none

-- @def Temporal_decodeOne
@[gdec] def Temporal_decodeOne (o : Obj3) (str_ : Bytes) : Option (Obj3 × Option Err) :=
  match Gen.D3.Base_decodeOne o str_ with
    | none => none
    | some (o, t1_) =>
      let err_ : Option Err := t1_
      if (err_).isSome then
        if (!(err_ == (some Err.notSupportMetric))) then
          some (o, err_)
        else
          let m_ : List Bytes := (split 58 str_)
          if ((m_).length != (2 : Nat)) then
            some (o, (some Err.invalidVector))
          else
            if ((0 : Nat) < (m_).length) then
              if ((((m_).getD (0 : Nat) [])).length == (0 : Nat)) then
                some (o, (some Err.invalidVector))
              else
                if ((1 : Nat) < (m_).length) then
                  if ((((m_).getD (1 : Nat) [])).length == (0 : Nat)) then
                    some (o, (some Err.invalidVector))
                  else
                    if ((0 : Nat) < (m_).length) then
                      let name_ : Bytes := ((m_).getD (0 : Nat) [])
                      if (namesGet Level.temporal o name_) then
                        some (o, (some Err.sameMetric))
                      else
                        if (name_ == ([69] : Bytes)) then
                          if ((1 : Nat) < (m_).length) then
                            let o : Obj3 := o.set .E (Gen.T3.GetExploitability ((m_).getD (1 : Nat) []))
                            if ((o.field .E) == (0 : Int)) then
                              some (o, (some Err.invalidValue))
                            else
                              let o : Obj3 := o.mark .E
                              some (o, (none : Option Err))
                          else none
                        else
                          if (name_ == ([82, 76] : Bytes)) then
                            if ((1 : Nat) < (m_).length) then
                              let o : Obj3 := o.set .RL (Gen.T3.GetRemediationLevel ((m_).getD (1 : Nat) []))
                              if ((o.field .RL) == (0 : Int)) then
                                some (o, (some Err.invalidValue))
                              else
                                let o : Obj3 := o.mark .RL
                                some (o, (none : Option Err))
                            else none
                          else
                            if (name_ == ([82, 67] : Bytes)) then
                              if ((1 : Nat) < (m_).length) then
                                let o : Obj3 := o.set .RC (Gen.T3.GetReportConfidence ((m_).getD (1 : Nat) []))
                                if ((o.field .RC) == (0 : Int)) then
                                  some (o, (some Err.invalidValue))
                                else
                                  let o : Obj3 := o.mark .RC
                                  some (o, (none : Option Err))
                              else none
                            else
                              some (o, (some Err.notSupportMetric))
                    else none
                else none
            else none
      else
        some (o, (none : Option Err))

-- @def Temporal_decodeOne_nil
@[gdec] def Temporal_decodeOne_nil (str_ : Bytes) : Option (Option Obj3 × Option Err) :=
  none

-- @def Environmental_decodeOne
@[gdec] def Environmental_decodeOne (o : Obj3) (str_ : Bytes) : Option (Obj3 × Option Err) :=
  match Gen.D3.Temporal_decodeOne o str_ with
    | none => none
    | some (o, t1_) =>
      let err_ : Option Err := t1_
      if (err_).isSome then
        if (!(err_ == (some Err.notSupportMetric))) then
          some (o, err_)
        else
          let m_ : List Bytes := (split 58 str_)
          if ((m_).length != (2 : Nat)) then
            some (o, (some Err.invalidVector))
          else
            if ((0 : Nat) < (m_).length) then
              if ((((m_).getD (0 : Nat) [])).length == (0 : Nat)) then
                some (o, (some Err.invalidVector))
              else
                if ((1 : Nat) < (m_).length) then
                  if ((((m_).getD (1 : Nat) [])).length == (0 : Nat)) then
                    some (o, (some Err.invalidVector))
                  else
                    if ((0 : Nat) < (m_).length) then
                      let name_ : Bytes := ((m_).getD (0 : Nat) [])
                      if (namesGet Level.environmental o name_) then
                        some (o, (some Err.sameMetric))
                      else
                        if (name_ == ([67, 82] : Bytes)) then
                          if ((1 : Nat) < (m_).length) then
                            let o : Obj3 := o.set .CR (Gen.T3.GetConfidentialityRequirement ((m_).getD (1 : Nat) []))
                            if ((o.field .CR) == (0 : Int)) then
                              some (o, (some Err.invalidValue))
                            else
                              let o : Obj3 := o.mark .CR
                              some (o, (none : Option Err))
                          else none
                        else
                          if (name_ == ([73, 82] : Bytes)) then
                            if ((1 : Nat) < (m_).length) then
                              let o : Obj3 := o.set .IR (Gen.T3.GetIntegrityRequirement ((m_).getD (1 : Nat) []))
                              if ((o.field .IR) == (0 : Int)) then
                                some (o, (some Err.invalidValue))
                              else
                                let o : Obj3 := o.mark .IR
                                some (o, (none : Option Err))
                            else none
                          else
                            if (name_ == ([65, 82] : Bytes)) then
                              if ((1 : Nat) < (m_).length) then
                                let o : Obj3 := o.set .AR (Gen.T3.GetAvailabilityRequirement ((m_).getD (1 : Nat) []))
                                if ((o.field .AR) == (0 : Int)) then
                                  some (o, (some Err.invalidValue))
                                else
                                  let o : Obj3 := o.mark .AR
                                  some (o, (none : Option Err))
                              else none
                            else
                              if (name_ == ([77, 65, 86] : Bytes)) then
                                if ((1 : Nat) < (m_).length) then
                                  let o : Obj3 := o.set .MAV (Gen.T3.GetModifiedAttackVector ((m_).getD (1 : Nat) []))
                                  if ((o.field .MAV) == (0 : Int)) then
                                    some (o, (some Err.invalidValue))
                                  else
                                    let o : Obj3 := o.mark .MAV
                                    some (o, (none : Option Err))
                                else none
                              else
                                if (name_ == ([77, 65, 67] : Bytes)) then
                                  if ((1 : Nat) < (m_).length) then
                                    let o : Obj3 := o.set .MAC (Gen.T3.GetModifiedAttackComplexity ((m_).getD (1 : Nat) []))
                                    if ((o.field .MAC) == (0 : Int)) then
                                      some (o, (some Err.invalidValue))
                                    else
                                      let o : Obj3 := o.mark .MAC
                                      some (o, (none : Option Err))
                                  else none
                                else
                                  if (name_ == ([77, 80, 82] : Bytes)) then
                                    if ((1 : Nat) < (m_).length) then
                                      let o : Obj3 := o.set .MPR (Gen.T3.GetModifiedPrivilegesRequired ((m_).getD (1 : Nat) []))
                                      if ((o.field .MPR) == (0 : Int)) then
                                        some (o, (some Err.invalidValue))
                                      else
                                        let o : Obj3 := o.mark .MPR
                                        some (o, (none : Option Err))
                                    else none
                                  else
                                    if (name_ == ([77, 85, 73] : Bytes)) then
                                      if ((1 : Nat) < (m_).length) then
                                        let o : Obj3 := o.set .MUI (Gen.T3.GetModifiedUserInteraction ((m_).getD (1 : Nat) []))
                                        if ((o.field .MUI) == (0 : Int)) then
                                          some (o, (some Err.invalidValue))
                                        else
                                          let o : Obj3 := o.mark .MUI
                                          some (o, (none : Option Err))
                                      else none
                                    else
                                      if (name_ == ([77, 83] : Bytes)) then
                                        if ((1 : Nat) < (m_).length) then
                                          let o : Obj3 := o.set .MS (Gen.T3.GetModifiedScope ((m_).getD (1 : Nat) []))
                                          if ((o.field .MS) == (0 : Int)) then
                                            some (o, (some Err.invalidValue))
                                          else
                                            let o : Obj3 := o.mark .MS
                                            some (o, (none : Option Err))
                                        else none
                                      else
                                        if (name_ == ([77, 67] : Bytes)) then
                                          if ((1 : Nat) < (m_).length) then
                                            let o : Obj3 := o.set .MC (Gen.T3.GetModifiedConfidentialityImpact ((m_).getD (1 : Nat) []))
                                            if ((o.field .MC) == (0 : Int)) then
                                              some (o, (some Err.invalidValue))
                                            else
                                              let o : Obj3 := o.mark .MC
                                              some (o, (none : Option Err))
                                          else none
                                        else
                                          if (name_ == ([77, 73] : Bytes)) then
                                            if ((1 : Nat) < (m_).length) then
                                              let o : Obj3 := o.set .MI (Gen.T3.GetModifiedIntegrityImpact ((m_).getD (1 : Nat) []))
                                              if ((o.field .MI) == (0 : Int)) then
                                                some (o, (some Err.invalidValue))
                                              else
                                                let o : Obj3 := o.mark .MI
                                                some (o, (none : Option Err))
                                            else none
                                          else
                                            if (name_ == ([77, 65] : Bytes)) then
                                              if ((1 : Nat) < (m_).length) then
                                                let o : Obj3 := o.set .MA (Gen.T3.GetModifiedAvailabilityImpact ((m_).getD (1 : Nat) []))
                                                if ((o.field .MA) == (0 : Int)) then
                                                  some (o, (some Err.invalidValue))
                                                else
                                                  let o : Obj3 := o.mark .MA
                                                  some (o, (none : Option Err))
                                              else none
                                            else
                                              some (o, (some Err.notSupportMetric))
                    else none
                else none
            else none
      else
        some (o, (none : Option Err))

-- @def Environmental_decodeOne_nil
@[gdec] def Environmental_decodeOne_nil (str_ : Bytes) : Option (Option Obj3 × Option Err) :=
  none

-- @def Base_Decode
@[gdec] def Base_Decode (o : Obj3) (vector_ : Bytes) : Option (Obj3 × (Bool × Option Err)) :=
  let values_ : List Bytes := (split 47 vector_)
  if ((0 : Nat) < (values_).length) then
    match Gen.D3.GetVersion ((values_).getD (0 : Nat) []) with
      | none => none
      | some (t1_, t2_) =>
        let ver_ : Int := t1_
        let err_ : Option Err := t2_
        if (err_).isSome then
          some (o, (false, err_))
        else
          if (ver_ == (0 : Int)) then
            some (o, (false, (some Err.notSupportVer)))
          else
            let o : Obj3 := { o with ver := ver_ }
            let lastErr_ : Option Err := (none : Option Err)
            if ((1 : Nat) ≤ (values_).length) then
              match forEach ((values_).drop (1 : Nat)) (o, lastErr_) (fun (o, lastErr_) value_ =>
                  match Gen.D3.Base_decodeOne o value_ with
                    | none => none
                    | some (o, t3_) =>
                      let err_1 : Option Err := t3_
                      if (err_1).isSome then
                        if (!(err_1 == (some Err.notSupportMetric))) then
                          some (Step.ret ((o, (false, err_1))))
                        else
                          let lastErr_ : Option Err := err_1
                          some (Step.next (o, lastErr_))
                      else
                        some (Step.next (o, lastErr_))) with
                | none => none
                | some (Step.ret r_) => some r_
                | some (Step.next (o, lastErr_)) =>
                  if (lastErr_).isSome then
                    some (o, (false, lastErr_))
                  else
                    match Gen.D3.Base_GetError o  with
                      | none => none
                      | some (o, t4_) =>
                        let err_2 : Option Err := t4_
                        if (err_2).isSome then
                          some (o, (false, err_2))
                        else
                          some (o, (true, (none : Option Err)))
            else none
  else none

-- @def Base_Decode_nil
@[gdec] def Base_Decode_nil (vector_ : Bytes) : Option (Option Obj3 × (Bool × Option Err)) :=
  let o : Obj3 := Gen.D3.NewBase
  let values_ : List Bytes := (split 47 vector_)
  if ((0 : Nat) < (values_).length) then
    match Gen.D3.GetVersion ((values_).getD (0 : Nat) []) with
      | none => none
      | some (t1_, t2_) =>
        let ver_ : Int := t1_
        let err_ : Option Err := t2_
        if (err_).isSome then
          some (some o, (false, err_))
        else
          if (ver_ == (0 : Int)) then
            some (some o, (false, (some Err.notSupportVer)))
          else
            let o : Obj3 := { o with ver := ver_ }
            let lastErr_ : Option Err := (none : Option Err)
            if ((1 : Nat) ≤ (values_).length) then
              match forEach ((values_).drop (1 : Nat)) (o, lastErr_) (fun (o, lastErr_) value_ =>
                  match Gen.D3.Base_decodeOne o value_ with
                    | none => none
                    | some (o, t3_) =>
                      let err_3 : Option Err := t3_
                      if (err_3).isSome then
                        if (!(err_3 == (some Err.notSupportMetric))) then
                          some (Step.ret ((some o, (false, err_3))))
                        else
                          let lastErr_ : Option Err := err_3
                          some (Step.next (o, lastErr_))
                      else
                        some (Step.next (o, lastErr_))) with
                | none => none
                | some (Step.ret r_) => some r_
                | some (Step.next (o, lastErr_)) =>
                  if (lastErr_).isSome then
                    some (some o, (false, lastErr_))
                  else
                    match Gen.D3.Base_GetError o  with
                      | none => none
                      | some (o, t4_) =>
                        let err_4 : Option Err := t4_
                        if (err_4).isSome then
                          some (some o, (false, err_4))
                        else
                          some (some o, (true, (none : Option Err)))
            else none
  else none

-- @def Temporal_Decode
@[gdec] def Temporal_Decode (o : Obj3) (vector_ : Bytes) : Option (Obj3 × (Bool × Option Err)) :=
  let values_ : List Bytes := (split 47 vector_)
  if ((0 : Nat) < (values_).length) then
    match Gen.D3.GetVersion ((values_).getD (0 : Nat) []) with
      | none => none
      | some (t1_, t2_) =>
        let ver_ : Int := t1_
        let err_ : Option Err := t2_
        if (err_).isSome then
          some (o, (false, err_))
        else
          if (ver_ == (0 : Int)) then
            some (o, (false, (some Err.notSupportVer)))
          else
            let o : Obj3 := { o with ver := ver_ }
            let lastErr_ : Option Err := (none : Option Err)
            if ((1 : Nat) ≤ (values_).length) then
              match forEach ((values_).drop (1 : Nat)) (o, lastErr_) (fun (o, lastErr_) value_ =>
                  match Gen.D3.Temporal_decodeOne o value_ with
                    | none => none
                    | some (o, t3_) =>
                      let err_5 : Option Err := t3_
                      if (err_5).isSome then
                        if (!(err_5 == (some Err.notSupportMetric))) then
                          some (Step.ret ((o, (false, err_5))))
                        else
                          let lastErr_ : Option Err := err_5
                          some (Step.next (o, lastErr_))
                      else
                        some (Step.next (o, lastErr_))) with
                | none => none
                | some (Step.ret r_) => some r_
                | some (Step.next (o, lastErr_)) =>
                  if (lastErr_).isSome then
                    some (o, (false, lastErr_))
                  else
                    match Gen.D3.Temporal_GetError o  with
                      | none => none
                      | some (o, t4_) =>
                        let err_6 : Option Err := t4_
                        if (err_6).isSome then
                          some (o, (false, err_6))
                        else
                          some (o, (true, (none : Option Err)))
            else none
  else none

-- @def Temporal_Decode_nil
@[gdec] def Temporal_Decode_nil (vector_ : Bytes) : Option (Option Obj3 × (Bool × Option Err)) :=
  let o : Obj3 := Gen.D3.NewTemporal
  let values_ : List Bytes := (split 47 vector_)
  if ((0 : Nat) < (values_).length) then
    match Gen.D3.GetVersion ((values_).getD (0 : Nat) []) with
      | none => none
      | some (t1_, t2_) =>
        let ver_ : Int := t1_
        let err_ : Option Err := t2_
        if (err_).isSome then
          some (some o, (false, err_))
        else
          if (ver_ == (0 : Int)) then
            some (some o, (false, (some Err.notSupportVer)))
          else
            let o : Obj3 := { o with ver := ver_ }
            let lastErr_ : Option Err := (none : Option Err)
            if ((1 : Nat) ≤ (values_).length) then
              match forEach ((values_).drop (1 : Nat)) (o, lastErr_) (fun (o, lastErr_) value_ =>
                  match Gen.D3.Temporal_decodeOne o value_ with
                    | none => none
                    | some (o, t3_) =>
                      let err_7 : Option Err := t3_
                      if (err_7).isSome then
                        if (!(err_7 == (some Err.notSupportMetric))) then
                          some (Step.ret ((some o, (false, err_7))))
                        else
                          let lastErr_ : Option Err := err_7
                          some (Step.next (o, lastErr_))
                      else
                        some (Step.next (o, lastErr_))) with
                | none => none
                | some (Step.ret r_) => some r_
                | some (Step.next (o, lastErr_)) =>
                  if (lastErr_).isSome then
                    some (some o, (false, lastErr_))
                  else
                    match Gen.D3.Temporal_GetError o  with
                      | none => none
                      | some (o, t4_) =>
                        let err_8 : Option Err := t4_
                        if (err_8).isSome then
                          some (some o, (false, err_8))
                        else
                          some (some o, (true, (none : Option Err)))
            else none
  else none

-- @def Environmental_Decode
@[gdec] def Environmental_Decode (o : Obj3) (vector_ : Bytes) : Option (Obj3 × (Bool × Option Err)) :=
  let values_ : List Bytes := (split 47 vector_)
  if ((0 : Nat) < (values_).length) then
    match Gen.D3.GetVersion ((values_).getD (0 : Nat) []) with
      | none => none
      | some (t1_, t2_) =>
        let ver_ : Int := t1_
        let err_ : Option Err := t2_
        if (err_).isSome then
          some (o, (false, err_))
        else
          if (ver_ == (0 : Int)) then
            some (o, (false, (some Err.notSupportVer)))
          else
            let o : Obj3 := { o with ver := ver_ }
            let lastErr_ : Option Err := (none : Option Err)
            if ((1 : Nat) ≤ (values_).length) then
              match forEach ((values_).drop (1 : Nat)) (o, lastErr_) (fun (o, lastErr_) value_ =>
                  match Gen.D3.Environmental_decodeOne o value_ with
                    | none => none
                    | some (o, t3_) =>
                      let err_9 : Option Err := t3_
                      if (err_9).isSome then
                        if (!(err_9 == (some Err.notSupportMetric))) then
                          some (Step.ret ((o, (false, err_9))))
                        else
                          let lastErr_ : Option Err := err_9
                          some (Step.next (o, lastErr_))
                      else
                        some (Step.next (o, lastErr_))) with
                | none => none
                | some (Step.ret r_) => some r_
                | some (Step.next (o, lastErr_)) =>
                  if (lastErr_).isSome then
                    some (o, (false, lastErr_))
                  else
                    match Gen.D3.Environmental_GetError o  with
                      | none => none
                      | some (o, t4_) =>
                        let err_10 : Option Err := t4_
                        if (err_10).isSome then
                          some (o, (false, err_10))
                        else
                          some (o, (true, (none : Option Err)))
            else none
  else none

-- @def Environmental_Decode_nil
@[gdec] def Environmental_Decode_nil (vector_ : Bytes) : Option (Option Obj3 × (Bool × Option Err)) :=
  let o : Obj3 := Gen.D3.NewEnvironmental
  let values_ : List Bytes := (split 47 vector_)
  if ((0 : Nat) < (values_).length) then
    match Gen.D3.GetVersion ((values_).getD (0 : Nat) []) with
      | none => none
      | some (t1_, t2_) =>
        let ver_ : Int := t1_
        let err_ : Option Err := t2_
        if (err_).isSome then
          some (some o, (false, err_))
        else
          if (ver_ == (0 : Int)) then
            some (some o, (false, (some Err.notSupportVer)))
          else
            let o : Obj3 := { o with ver := ver_ }
            let lastErr_ : Option Err := (none : Option Err)
            if ((1 : Nat) ≤ (values_).length) then
              match forEach ((values_).drop (1 : Nat)) (o, lastErr_) (fun (o, lastErr_) value_ =>
                  match Gen.D3.Environmental_decodeOne o value_ with
                    | none => none
                    | some (o, t3_) =>
                      let err_11 : Option Err := t3_
                      if (err_11).isSome then
                        if (!(err_11 == (some Err.notSupportMetric))) then
                          some (Step.ret ((some o, (false, err_11))))
                        else
                          let lastErr_ : Option Err := err_11
                          some (Step.next (o, lastErr_))
                      else
                        some (Step.next (o, lastErr_))) with
                | none => none
                | some (Step.ret r_) => some r_
                | some (Step.next (o, lastErr_)) =>
                  if (lastErr_).isSome then
                    some (some o, (false, lastErr_))
                  else
                    match Gen.D3.Environmental_GetError o  with
                      | none => none
                      | some (o, t4_) =>
                        let err_12 : Option Err := t4_
                        if (err_12).isSome then
                          some (some o, (false, err_12))
                        else
                          some (some o, (true, (none : Option Err)))
            else none
  else none

-- @def Base_BaseMetrics
@[gdec] def Base_BaseMetrics (o : Obj3) : Option (Obj3 × Bool) :=
  some (o, true)

-- @def Base_BaseMetrics_nil
@[gdec] def Base_BaseMetrics_nil  : Option (Option Obj3 × Bool) :=
  some (none, false)

-- @def Temporal_BaseMetrics
@[gdec] def Temporal_BaseMetrics (o : Obj3) : Option (Obj3 × Bool) :=
  some (o, true)

-- @def Temporal_BaseMetrics_nil
@[gdec] def Temporal_BaseMetrics_nil  : Option (Option Obj3 × Bool) :=
  some (none, false)

-- @def Environmental_BaseMetrics
@[gdec] def Environmental_BaseMetrics (o : Obj3) : Option (Obj3 × Bool) :=
  some (o, true)

-- @def Environmental_BaseMetrics_nil
@[gdec] def Environmental_BaseMetrics_nil  : Option (Option Obj3 × Bool) :=
  some (none, false)

-- @def Environmental_TemporalMetrics
@[gdec] def Environmental_TemporalMetrics (o : Obj3) : Option (Obj3 × Bool) :=
  some (o, true)

-- @def Environmental_TemporalMetrics_nil
@[gdec] def Environmental_TemporalMetrics_nil  : Option (Option Obj3 × Bool) :=
  some (none, false)

-- @def markSites
/-- every `x.names[k] = true` of the source: the struct (level) whose map is written and the metric name k is known to be
    at that point; each must be the name of a metric of that level (proved in Proofs/Decoders.lean) -/
def markSites : List (Level × Bytes) := [(Level.base, ([65] : Bytes)), (Level.base, ([65, 67] : Bytes)), (Level.base, ([65, 86] : Bytes)), (Level.base, ([67] : Bytes)), (Level.base, ([73] : Bytes)), (Level.base, ([80, 82] : Bytes)), (Level.base, ([83] : Bytes)), (Level.base, ([85, 73] : Bytes)), (Level.environmental, ([65, 82] : Bytes)), (Level.environmental, ([67, 82] : Bytes)), (Level.environmental, ([73, 82] : Bytes)), (Level.environmental, ([77, 65] : Bytes)), (Level.environmental, ([77, 65, 67] : Bytes)), (Level.environmental, ([77, 65, 86] : Bytes)), (Level.environmental, ([77, 67] : Bytes)), (Level.environmental, ([77, 73] : Bytes)), (Level.environmental, ([77, 80, 82] : Bytes)), (Level.environmental, ([77, 83] : Bytes)), (Level.environmental, ([77, 85, 73] : Bytes)), (Level.temporal, ([69] : Bytes)), (Level.temporal, ([82, 67] : Bytes)), (Level.temporal, ([82, 76] : Bytes))]

end CvssVerif.Gen.D3

namespace CvssVerif.Gen.D2
open CvssVerif CvssVerif.GoRt CvssVerif.V2

-- @def NewBase
@[gdec] def NewBase : Obj2 :=
  (fun o => o.set .A 0) ((fun o => o.set .I 0) ((fun o => o.set .C 0) ((fun o => o.set .Au 0) ((fun o => o.set .AC 0) ((fun o => o.set .AV 0) ((⟨fun _ => 0, fun _ => false⟩ : Obj2)))))))

-- @def NewTemporal
@[gdec] def NewTemporal : Obj2 :=
  (fun o => o.set .RC 0) ((fun o => o.set .RL 0) ((fun o => o.set .E 0) (Gen.D2.NewBase)))

-- @def NewEnvironmental
@[gdec] def NewEnvironmental : Obj2 :=
  (fun o => o.set .AR 0) ((fun o => o.set .IR 0) ((fun o => o.set .CR 0) ((fun o => o.set .TD 0) ((fun o => o.set .CDP 0) (Gen.D2.NewTemporal)))))

-- @def Temporal_IsEmpty
@[gdec] def Temporal_IsEmpty (o : Obj2) : Option (Obj2 × Bool) :=
  some (o, (((!(o.named .E)) && (!(o.named .RL))) && (!(o.named .RC))))

-- @def Temporal_IsEmpty_nil
@[gdec] def Temporal_IsEmpty_nil  : Option (Option Obj2 × Bool) :=
  none

-- @def Environmental_IsEmpty
@[gdec] def Environmental_IsEmpty (o : Obj2) : Option (Obj2 × Bool) :=
  some (o, (((((!(o.named .CDP)) && (!(o.named .TD))) && (!(o.named .CR))) && (!(o.named .IR))) && (!(o.named .AR))))

-- @def Environmental_IsEmpty_nil
@[gdec] def Environmental_IsEmpty_nil  : Option (Option Obj2 × Bool) :=
  none

-- @def Base_GetError
@[gdec] def Base_GetError (o : Obj2) : Option (Obj2 × Option Err) :=
  if ((!(Gen.T2.AccessVector_IsUnknown (o.field .AV))) || (!(Gen.T2.AccessComplexity_IsUnknown (o.field .AC))) || (!(Gen.T2.Authentication_IsUnknown (o.field .Au))) || (!(Gen.T2.ConfidentialityImpact_IsUnknown (o.field .C))) || (!(Gen.T2.IntegrityImpact_IsUnknown (o.field .I))) || (!(Gen.T2.AvailabilityImpact_IsUnknown (o.field .A)))) then
    some (o, (some Err.noBaseMetrics))
  else
    some (o, (none : Option Err))

-- @def Base_GetError_nil
@[gdec] def Base_GetError_nil  : Option (Option Obj2 × Option Err) :=
  some (none, (some Err.noBaseMetrics))

-- @def Temporal_GetError
@[gdec] def Temporal_GetError (o : Obj2) : Option (Obj2 × Option Err) :=
  match Gen.D2.Base_GetError o  with
    | none => none
    | some (o, t1_) =>
      let err_ : Option Err := t1_
      if (err_).isSome then
        some (o, err_)
      else
        match Gen.D2.Temporal_IsEmpty o  with
          | none => none
          | some (o, t2_) =>
            if t2_ then
              some (o, (none : Option Err))
            else
              if ((!(Gen.T2.Exploitability_IsValid (o.field .E))) || (!(Gen.T2.RemediationLevel_IsValid (o.field .RL))) || (!(Gen.T2.ReportConfidence_IsValid (o.field .RC)))) then
                some (o, (some Err.noTemporalMetrics))
              else
                some (o, (none : Option Err))

-- @def Temporal_GetError_nil
@[gdec] def Temporal_GetError_nil  : Option (Option Obj2 × Option Err) :=
  some (none, (some Err.noTemporalMetrics))

-- @def Environmental_GetError
@[gdec] def Environmental_GetError (o : Obj2) : Option (Obj2 × Option Err) :=
  match Gen.D2.Temporal_GetError o  with
    | none => none
    | some (o, t1_) =>
      let err_ : Option Err := t1_
      if (err_).isSome then
        some (o, err_)
      else
        match Gen.D2.Environmental_IsEmpty o  with
          | none => none
          | some (o, t2_) =>
            if t2_ then
              some (o, (none : Option Err))
            else
              if ((!(Gen.T2.CollateralDamagePotential_IsValid (o.field .CDP))) || (!(Gen.T2.TargetDistribution_IsValid (o.field .TD))) || (!(Gen.T2.ConfidentialityRequirement_IsValid (o.field .CR))) || (!(Gen.T2.IntegrityRequirement_IsValid (o.field .IR))) || (!(Gen.T2.AvailabilityRequirement_IsValid (o.field .AR)))) then
                some (o, (some Err.noEnvironmentalMetrics))
              else
                some (o, (none : Option Err))

-- @def Environmental_GetError_nil
@[gdec] def Environmental_GetError_nil  : Option (Option Obj2 × Option Err) :=
  some (none, (some Err.noEnvironmentalMetrics))

-- @def Base_Encode
@[gdec] def Base_Encode (o : Obj2) : Option (Obj2 × (Bytes × Option Err)) :=
  let r_ : List Bytes := ([] : List Bytes)
  let r_ : List Bytes := (if (o.named .AV) then (
      let r_ : List Bytes := (r_ ++ [(([65, 86] : Bytes) ++ ([58] : Bytes) ++ (Gen.T2.AccessVector_String (o.field .AV)))])
      r_
    ) else r_)
  let r_ : List Bytes := (if (o.named .AC) then (
      let r_ : List Bytes := (r_ ++ [(([65, 67] : Bytes) ++ ([58] : Bytes) ++ (Gen.T2.AccessComplexity_String (o.field .AC)))])
      r_
    ) else r_)
  let r_ : List Bytes := (if (o.named .Au) then (
      let r_ : List Bytes := (r_ ++ [(([65, 117] : Bytes) ++ ([58] : Bytes) ++ (Gen.T2.Authentication_String (o.field .Au)))])
      r_
    ) else r_)
  let r_ : List Bytes := (if (o.named .C) then (
      let r_ : List Bytes := (r_ ++ [(([67] : Bytes) ++ ([58] : Bytes) ++ (Gen.T2.ConfidentialityImpact_String (o.field .C)))])
      r_
    ) else r_)
  let r_ : List Bytes := (if (o.named .I) then (
      let r_ : List Bytes := (r_ ++ [(([73] : Bytes) ++ ([58] : Bytes) ++ (Gen.T2.IntegrityImpact_String (o.field .I)))])
      r_
    ) else r_)
  let r_ : List Bytes := (if (o.named .A) then (
      let r_ : List Bytes := (r_ ++ [(([65] : Bytes) ++ ([58] : Bytes) ++ (Gen.T2.AvailabilityImpact_String (o.field .A)))])
      r_
    ) else r_)
  match Gen.D2.Base_GetError o  with
    | none => none
    | some (o, t1_) =>
      some (o, ((join 47 r_), t1_))

-- @def Base_Encode_nil
@[gdec] def Base_Encode_nil  : Option (Option Obj2 × (Bytes × Option Err)) :=
  some (none, (([] : Bytes), (some Err.noBaseMetrics)))

-- @def Base_String
@[gdec] def Base_String (o : Obj2) : Option (Obj2 × Bytes) :=
  match Gen.D2.Base_Encode o  with
    | none => none
    | some (o, (t1_, t2_)) =>
      let s_ : Bytes := t1_
      some (o, s_)

-- @def Base_String_nil
@[gdec] def Base_String_nil  : Option (Option Obj2 × Bytes) :=
  match Gen.D2.Base_Encode_nil  with
    | none => none
    | some (_, (t1_, t2_)) =>
      let s_ : Bytes := t1_
      some (none, s_)

-- @def Temporal_Encode
@[gdec] def Temporal_Encode (o : Obj2) : Option (Obj2 × (Bytes × Option Err)) :=
  let r_ : Bytes := ([] : Bytes)
  match Gen.D2.Base_String o  with
    | none => none
    | some (o, t1_) =>
      let r_ : Bytes := r_ ++ t1_
      let r_ : Bytes := (if (o.named .E) then (
          let r_ : Bytes := r_ ++ (([47] : Bytes) ++ ([69] : Bytes) ++ ([58] : Bytes) ++ (Gen.T2.Exploitability_String (o.field .E)))
          r_
        ) else r_)
      let r_ : Bytes := (if (o.named .RL) then (
          let r_ : Bytes := r_ ++ (([47] : Bytes) ++ ([82, 76] : Bytes) ++ ([58] : Bytes) ++ (Gen.T2.RemediationLevel_String (o.field .RL)))
          r_
        ) else r_)
      let r_ : Bytes := (if (o.named .RC) then (
          let r_ : Bytes := r_ ++ (([47] : Bytes) ++ ([82, 67] : Bytes) ++ ([58] : Bytes) ++ (Gen.T2.ReportConfidence_String (o.field .RC)))
          r_
        ) else r_)
      match Gen.D2.Temporal_GetError o  with
        | none => none
        | some (o, t2_) =>
          some (o, (r_, t2_))

-- @def Temporal_Encode_nil
@[gdec] def Temporal_Encode_nil  : Option (Option Obj2 × (Bytes × Option Err)) :=
  some (none, (([] : Bytes), (some Err.noBaseMetrics)))

-- @def Temporal_String
@[gdec] def Temporal_String (o : Obj2) : Option (Obj2 × Bytes) :=
  match Gen.D2.Temporal_Encode o  with
    | none => none
    | some (o, (t1_, t2_)) =>
      let s_ : Bytes := t1_
      some (o, s_)

-- @def Temporal_String_nil
@[gdec] def Temporal_String_nil  : Option (Option Obj2 × Bytes) :=
  match Gen.D2.Temporal_Encode_nil  with
    | none => none
    | some (_, (t1_, t2_)) =>
      let s_ : Bytes := t1_
      some (none, s_)

-- @def Environmental_Encode
@[gdec] def Environmental_Encode (o : Obj2) : Option (Obj2 × (Bytes × Option Err)) :=
  let r_ : Bytes := ([] : Bytes)
  match Gen.D2.Temporal_String o  with
    | none => none
    | some (o, t1_) =>
      let r_ : Bytes := r_ ++ t1_
      let r_ : Bytes := (if (o.named .CDP) then (
          let r_ : Bytes := r_ ++ (([47] : Bytes) ++ ([67, 68, 80] : Bytes) ++ ([58] : Bytes) ++ (Gen.T2.CollateralDamagePotential_String (o.field .CDP)))
          r_
        ) else r_)
      let r_ : Bytes := (if (o.named .TD) then (
          let r_ : Bytes := r_ ++ (([47] : Bytes) ++ ([84, 68] : Bytes) ++ ([58] : Bytes) ++ (Gen.T2.TargetDistribution_String (o.field .TD)))
          r_
        ) else r_)
      let r_ : Bytes := (if (o.named .CR) then (
          let r_ : Bytes := r_ ++ (([47] : Bytes) ++ ([67, 82] : Bytes) ++ ([58] : Bytes) ++ (Gen.T2.ConfidentialityRequirement_String (o.field .CR)))
          r_
        ) else r_)
      let r_ : Bytes := (if (o.named .IR) then (
          let r_ : Bytes := r_ ++ (([47] : Bytes) ++ ([73, 82] : Bytes) ++ ([58] : Bytes) ++ (Gen.T2.IntegrityRequirement_String (o.field .IR)))
          r_
        ) else r_)
      let r_ : Bytes := (if (o.named .AR) then (
          let r_ : Bytes := r_ ++ (([47] : Bytes) ++ ([65, 82] : Bytes) ++ ([58] : Bytes) ++ (Gen.T2.AvailabilityRequirement_String (o.field .AR)))
          r_
        ) else r_)
      match Gen.D2.Environmental_GetError o  with
        | none => none
        | some (o, t2_) =>
          some (o, (r_, t2_))

-- @def Environmental_Encode_nil
@[gdec] def Environmental_Encode_nil  : Option (Option Obj2 × (Bytes × Option Err)) :=
  some (none, (([] : Bytes), (some Err.noBaseMetrics)))

-- @def Environmental_String
@[gdec] def Environmental_String (o : Obj2) : Option (Obj2 × Bytes) :=
  match Gen.D2.Environmental_Encode o  with
    | none => none
    | some (o, (t1_, t2_)) =>
      let s_ : Bytes := t1_
      some (o, s_)

-- @def Environmental_String_nil
@[gdec] def Environmental_String_nil  : Option (Option Obj2 × Bytes) :=
  match Gen.D2.Environmental_Encode_nil  with
    | none => none
    | some (_, (t1_, t2_)) =>
      let s_ : Bytes := t1_
      some (none, s_)

-- @def Base_decodeOne
@[gdec] def Base_decodeOne (o : Obj2) (str_ : Bytes) : Option (Obj2 × Option Err) :=
  let elm_ : List Bytes := (split 58 str_)
  if ((elm_).length != (2 : Nat)) then
    some (o, (some Err.invalidVector))
  else
    if ((0 : Nat) < (elm_).length) then
      if ((((elm_).getD (0 : Nat) [])).length == (0 : Nat)) then
        some (o, (some Err.invalidVector))
      else
        if ((1 : Nat) < (elm_).length) then
          if ((((elm_).getD (1 : Nat) [])).length == (0 : Nat)) then
            some (o, (some Err.invalidVector))
          else
            if ((0 : Nat) < (elm_).length) then
              let name_ : Bytes := ((elm_).getD (0 : Nat) [])
              if (namesGet Level.base o name_) then
                some (o, (some Err.sameMetric))
              else
                if (name_ == ([65, 86] : Bytes)) then
                  if ((1 : Nat) < (elm_).length) then
                    let o : Obj2 := o.set .AV (Gen.T2.GetAccessVector ((elm_).getD (1 : Nat) []))
                    if ((o.field .AV) == (0 : Int)) then
                      some (o, (some Err.invalidValue))
                    else
                      let o : Obj2 := o.mark .AV
                      some (o, (none : Option Err))
                  else none
                else
                  if (name_ == ([65, 67] : Bytes)) then
                    if ((1 : Nat) < (elm_).length) then
                      let o : Obj2 := o.set .AC (Gen.T2.GetAccessComplexity ((elm_).getD (1 : Nat) []))
                      if ((o.field .AC) == (0 : Int)) then
                        some (o, (some Err.invalidValue))
                      else
                        let o : Obj2 := o.mark .AC
                        some (o, (none : Option Err))
                    else none
                  else
                    if (name_ == ([65, 117] : Bytes)) then
                      if ((1 : Nat) < (elm_).length) then
                        let o : Obj2 := o.set .Au (Gen.T2.GetAuthentication ((elm_).getD (1 : Nat) []))
                        if ((o.field .Au) == (0 : Int)) then
                          some (o, (some Err.invalidValue))
                        else
                          let o : Obj2 := o.mark .Au
                          some (o, (none : Option Err))
                      else none
                    else
                      if (name_ == ([67] : Bytes)) then
                        if ((1 : Nat) < (elm_).length) then
                          let o : Obj2 := o.set .C (Gen.T2.GetConfidentialityImpact ((elm_).getD (1 : Nat) []))
                          if ((o.field .C) == (0 : Int)) then
                            some (o, (some Err.invalidValue))
                          else
                            let o : Obj2 := o.mark .C
                            some (o, (none : Option Err))
                        else none
                      else
                        if (name_ == ([73] : Bytes)) then
                          if ((1 : Nat) < (elm_).length) then
                            let o : Obj2 := o.set .I (Gen.T2.GetIntegrityImpact ((elm_).getD (1 : Nat) []))
                            if ((o.field .I) == (0 : Int)) then
                              some (o, (some Err.invalidValue))
                            else
                              let o : Obj2 := o.mark .I
                              some (o, (none : Option Err))
                          else none
                        else
                          if (name_ == ([65] : Bytes)) then
                            if ((1 : Nat) < (elm_).length) then
                              let o : Obj2 := o.set .A (Gen.T2.GetAvailabilityImpact ((elm_).getD (1 : Nat) []))
                              if ((o.field .A) == (0 : Int)) then
                                some (o, (some Err.invalidValue))
                              else
                                let o : Obj2 := o.mark .A
                                some (o, (none : Option Err))
                            else none
                          else
                            some (o, (some Err.notSupportMetric))
            else none
        else none
    else none

-- @def Base_decodeOne_nil
@[gdec] def Base_decodeOne_nil (str_ : Bytes) : Option (Option Obj2 × Option Err) :=
  let elm_ : List Bytes := (split 58 str_)
  if ((elm_).length != (2 : Nat)) then
    some (none, (some Err.invalidVector))
  else
    if ((0 : Nat) < (elm_).length) then
      if ((((elm_).getD (0 : Nat) [])).length == (0 : Nat)) then
        some (none, (some Err.invalidVector))
      else
        if ((1 : Nat) < (elm_).length) then
          if ((((elm_).getD (1 : Nat) [])).length == (0 : Nat)) then
            some (none, (some Err.invalidVector))
          else
            if ((0 : Nat) < (elm_).length) then
              let name_ : Bytes := ((elm_).getD (0 : Nat) [])
              none
            else none
        else none
    else none

-- @def Temporal_decodeOne
@[gdec] def Temporal_decodeOne (o : Obj2) (str_ : Bytes) : Option (Obj2 × Option Err) :=
  match Gen.D2.Base_decodeOne o str_ with
    | none => none
    | some (o, t1_) =>
      let err_ : Option Err := t1_
      if (err_).isSome then
        if (!(err_ == (some Err.notSupportMetric))) then
          some (o, err_)
        else
          let elm_ : List Bytes := (split 58 str_)
          if ((elm_).length != (2 : Nat)) then
            some (o, (some Err.invalidVector))
          else
            if ((0 : Nat) < (elm_).length) then
              if ((((elm_).getD (0 : Nat) [])).length == (0 : Nat)) then
                some (o, (some Err.invalidVector))
              else
                if ((1 : Nat) < (elm_).length) then
                  if ((((elm_).getD (1 : Nat) [])).length == (0 : Nat)) then
                    some (o, (some Err.invalidVector))
                  else
                    if ((0 : Nat) < (elm_).length) then
                      let name_ : Bytes := ((elm_).getD (0 : Nat) [])
                      if (namesGet Level.temporal o name_) then
                        some (o, (some Err.sameMetric))
                      else
                        if (name_ == ([69] : Bytes)) then
                          if ((1 : Nat) < (elm_).length) then
                            let o : Obj2 := o.set .E (Gen.T2.GetExploitability ((elm_).getD (1 : Nat) []))
                            if ((o.field .E) == (0 : Int)) then
                              some (o, (some Err.invalidValue))
                            else
                              let o : Obj2 := o.mark .E
                              some (o, (none : Option Err))
                          else none
                        else
                          if (name_ == ([82, 76] : Bytes)) then
                            if ((1 : Nat) < (elm_).length) then
                              let o : Obj2 := o.set .RL (Gen.T2.GetRemediationLevel ((elm_).getD (1 : Nat) []))
                              if ((o.field .RL) == (0 : Int)) then
                                some (o, (some Err.invalidValue))
                              else
                                let o : Obj2 := o.mark .RL
                                some (o, (none : Option Err))
                            else none
                          else
                            if (name_ == ([82, 67] : Bytes)) then
                              if ((1 : Nat) < (elm_).length) then
                                let o : Obj2 := o.set .RC (Gen.T2.GetReportConfidence ((elm_).getD (1 : Nat) []))
                                if ((o.field .RC) == (0 : Int)) then
                                  some (o, (some Err.invalidValue))
                                else
                                  let o : Obj2 := o.mark .RC
                                  some (o, (none : Option Err))
                              else none
                            else
                              some (o, (some Err.notSupportMetric))
                    else none
                else none
            else none
      else
        some (o, (none : Option Err))

-- @def Temporal_decodeOne_nil
@[gdec] def Temporal_decodeOne_nil (str_ : Bytes) : Option (Option Obj2 × Option Err) :=
  none

-- @def Environmental_decodeOne
@[gdec] def Environmental_decodeOne (o : Obj2) (str_ : Bytes) : Option (Obj2 × Option Err) :=
  match Gen.D2.Temporal_decodeOne o str_ with
    | none => none
    | some (o, t1_) =>
      let err_ : Option Err := t1_
      if (err_).isSome then
        if (!(err_ == (some Err.notSupportMetric))) then
          some (o, err_)
        else
          let elm_ : List Bytes := (split 58 str_)
          if ((elm_).length != (2 : Nat)) then
            some (o, (some Err.invalidVector))
          else
            if ((0 : Nat) < (elm_).length) then
              if ((((elm_).getD (0 : Nat) [])).length == (0 : Nat)) then
                some (o, (some Err.invalidVector))
              else
                if ((1 : Nat) < (elm_).length) then
                  if ((((elm_).getD (1 : Nat) [])).length == (0 : Nat)) then
                    some (o, (some Err.invalidVector))
                  else
                    if ((0 : Nat) < (elm_).length) then
                      let name_ : Bytes := ((elm_).getD (0 : Nat) [])
                      if (namesGet Level.environmental o name_) then
                        some (o, (some Err.sameMetric))
                      else
                        if (name_ == ([67, 68, 80] : Bytes)) then
                          if ((1 : Nat) < (elm_).length) then
                            let o : Obj2 := o.set .CDP (Gen.T2.GetCollateralDamagePotential ((elm_).getD (1 : Nat) []))
                            if ((o.field .CDP) == (0 : Int)) then
                              some (o, (some Err.invalidValue))
                            else
                              let o : Obj2 := o.mark .CDP
                              some (o, (none : Option Err))
                          else none
                        else
                          if (name_ == ([84, 68] : Bytes)) then
                            if ((1 : Nat) < (elm_).length) then
                              let o : Obj2 := o.set .TD (Gen.T2.GetTargetDistribution ((elm_).getD (1 : Nat) []))
                              if ((o.field .TD) == (0 : Int)) then
                                some (o, (some Err.invalidValue))
                              else
                                let o : Obj2 := o.mark .TD
                                some (o, (none : Option Err))
                            else none
                          else
                            if (name_ == ([67, 82] : Bytes)) then
                              if ((1 : Nat) < (elm_).length) then
                                let o : Obj2 := o.set .CR (Gen.T2.GetConfidentialityRequirement ((elm_).getD (1 : Nat) []))
                                if ((o.field .CR) == (0 : Int)) then
                                  some (o, (some Err.invalidValue))
                                else
                                  let o : Obj2 := o.mark .CR
                                  some (o, (none : Option Err))
                              else none
                            else
                              if (name_ == ([73, 82] : Bytes)) then
                                if ((1 : Nat) < (elm_).length) then
                                  let o : Obj2 := o.set .IR (Gen.T2.GetIntegrityRequirement ((elm_).getD (1 : Nat) []))
                                  if ((o.field .IR) == (0 : Int)) then
                                    some (o, (some Err.invalidValue))
                                  else
                                    let o : Obj2 := o.mark .IR
                                    some (o, (none : Option Err))
                                else none
                              else
                                if (name_ == ([65, 82] : Bytes)) then
                                  if ((1 : Nat) < (elm_).length) then
                                    let o : Obj2 := o.set .AR (Gen.T2.GetAvailabilityRequirement ((elm_).getD (1 : Nat) []))
                                    if ((o.field .AR) == (0 : Int)) then
                                      some (o, (some Err.invalidValue))
                                    else
                                      let o : Obj2 := o.mark .AR
                                      some (o, (none : Option Err))
                                  else none
                                else
                                  some (o, (some Err.notSupportMetric))
                    else none
                else none
            else none
      else
        some (o, (none : Option Err))

-- @def Environmental_decodeOne_nil
@[gdec] def Environmental_decodeOne_nil (str_ : Bytes) : Option (Option Obj2 × Option Err) :=
  none

-- @def Base_Decode
@[gdec] def Base_Decode (o : Obj2) (vector_ : Bytes) : Option (Obj2 × (Bool × Option Err)) :=
  let values_ : List Bytes := (split 47 vector_)
  let lastErr_ : Option Err := (none : Option Err)
  match forEach values_ (o, lastErr_) (fun (o, lastErr_) value_ =>
        match Gen.D2.Base_decodeOne o value_ with
          | none => none
          | some (o, t1_) =>
            let err_ : Option Err := t1_
            if (err_).isSome then
              if (!(err_ == (some Err.notSupportMetric))) then
                some (Step.ret ((o, (false, err_))))
              else
                let lastErr_ : Option Err := err_
                some (Step.next (o, lastErr_))
            else
              some (Step.next (o, lastErr_))) with
    | none => none
    | some (Step.ret r_) => some r_
    | some (Step.next (o, lastErr_)) =>
      if (lastErr_).isSome then
        some (o, (false, lastErr_))
      else
        match Gen.D2.Base_Encode o  with
          | none => none
          | some (o, (t2_, t3_)) =>
            let enc_ : Bytes := t2_
            let err_ : Option Err := t3_
            if (err_).isSome then
              some (o, (false, err_))
            else
              if (vector_ != enc_) then
                some (o, (false, (some Err.misordered)))
              else
                some (o, (true, (none : Option Err)))

-- @def Base_Decode_nil
@[gdec] def Base_Decode_nil (vector_ : Bytes) : Option (Option Obj2 × (Bool × Option Err)) :=
  let o : Obj2 := Gen.D2.NewBase
  let values_ : List Bytes := (split 47 vector_)
  let lastErr_ : Option Err := (none : Option Err)
  match forEach values_ (o, lastErr_) (fun (o, lastErr_) value_ =>
        match Gen.D2.Base_decodeOne o value_ with
          | none => none
          | some (o, t1_) =>
            let err_ : Option Err := t1_
            if (err_).isSome then
              if (!(err_ == (some Err.notSupportMetric))) then
                some (Step.ret ((some o, (false, err_))))
              else
                let lastErr_ : Option Err := err_
                some (Step.next (o, lastErr_))
            else
              some (Step.next (o, lastErr_))) with
    | none => none
    | some (Step.ret r_) => some r_
    | some (Step.next (o, lastErr_)) =>
      if (lastErr_).isSome then
        some (some o, (false, lastErr_))
      else
        match Gen.D2.Base_Encode o  with
          | none => none
          | some (o, (t2_, t3_)) =>
            let enc_ : Bytes := t2_
            let err_ : Option Err := t3_
            if (err_).isSome then
              some (some o, (false, err_))
            else
              if (vector_ != enc_) then
                some (some o, (false, (some Err.misordered)))
              else
                some (some o, (true, (none : Option Err)))

-- @def Temporal_Decode
@[gdec] def Temporal_Decode (o : Obj2) (vector_ : Bytes) : Option (Obj2 × (Bool × Option Err)) :=
  let values_ : List Bytes := (split 47 vector_)
  let lastErr_ : Option Err := (none : Option Err)
  match forEach values_ (o, lastErr_) (fun (o, lastErr_) value_ =>
        match Gen.D2.Temporal_decodeOne o value_ with
          | none => none
          | some (o, t1_) =>
            let err_ : Option Err := t1_
            if (err_).isSome then
              if (!(err_ == (some Err.notSupportMetric))) then
                some (Step.ret ((o, (false, err_))))
              else
                let lastErr_ : Option Err := err_
                some (Step.next (o, lastErr_))
            else
              some (Step.next (o, lastErr_))) with
    | none => none
    | some (Step.ret r_) => some r_
    | some (Step.next (o, lastErr_)) =>
      if (lastErr_).isSome then
        some (o, (false, lastErr_))
      else
        match Gen.D2.Temporal_Encode o  with
          | none => none
          | some (o, (t2_, t3_)) =>
            let enc_ : Bytes := t2_
            let err_ : Option Err := t3_
            if (err_).isSome then
              some (o, (false, err_))
            else
              if (vector_ != enc_) then
                some (o, (false, (some Err.misordered)))
              else
                some (o, (true, (none : Option Err)))

-- @def Temporal_Decode_nil
@[gdec] def Temporal_Decode_nil (vector_ : Bytes) : Option (Option Obj2 × (Bool × Option Err)) :=
  let o : Obj2 := Gen.D2.NewTemporal
  let values_ : List Bytes := (split 47 vector_)
  let lastErr_ : Option Err := (none : Option Err)
  match forEach values_ (o, lastErr_) (fun (o, lastErr_) value_ =>
        match Gen.D2.Temporal_decodeOne o value_ with
          | none => none
          | some (o, t1_) =>
            let err_ : Option Err := t1_
            if (err_).isSome then
              if (!(err_ == (some Err.notSupportMetric))) then
                some (Step.ret ((some o, (false, err_))))
              else
                let lastErr_ : Option Err := err_
                some (Step.next (o, lastErr_))
            else
              some (Step.next (o, lastErr_))) with
    | none => none
    | some (Step.ret r_) => some r_
    | some (Step.next (o, lastErr_)) =>
      if (lastErr_).isSome then
        some (some o, (false, lastErr_))
      else
        match Gen.D2.Temporal_Encode o  with
          | none => none
          | some (o, (t2_, t3_)) =>
            let enc_ : Bytes := t2_
            let err_ : Option Err := t3_
            if (err_).isSome then
              some (some o, (false, err_))
            else
              if (vector_ != enc_) then
                some (some o, (false, (some Err.misordered)))
              else
                some (some o, (true, (none : Option Err)))

-- @def Environmental_Decode
@[gdec] def Environmental_Decode (o : Obj2) (vector_ : Bytes) : Option (Obj2 × (Bool × Option Err)) :=
  let values_ : List Bytes := (split 47 vector_)
  let lastErr_ : Option Err := (none : Option Err)
  match forEach values_ (o, lastErr_) (fun (o, lastErr_) value_ =>
        match Gen.D2.Environmental_decodeOne o value_ with
          | none => none
          | some (o, t1_) =>
            let err_ : Option Err := t1_
            if (err_).isSome then
              if (!(err_ == (some Err.notSupportMetric))) then
                some (Step.ret ((o, (false, err_))))
              else
                let lastErr_ : Option Err := err_
                some (Step.next (o, lastErr_))
            else
              some (Step.next (o, lastErr_))) with
    | none => none
    | some (Step.ret r_) => some r_
    | some (Step.next (o, lastErr_)) =>
      if (lastErr_).isSome then
        some (o, (false, lastErr_))
      else
        match Gen.D2.Environmental_Encode o  with
          | none => none
          | some (o, (t2_, t3_)) =>
            let enc_ : Bytes := t2_
            let err_ : Option Err := t3_
            if (err_).isSome then
              some (o, (false, err_))
            else
              if (vector_ != enc_) then
                some (o, (false, (some Err.misordered)))
              else
                some (o, (true, (none : Option Err)))

-- @def Environmental_Decode_nil
@[gdec] def Environmental_Decode_nil (vector_ : Bytes) : Option (Option Obj2 × (Bool × Option Err)) :=
  let o : Obj2 := Gen.D2.NewEnvironmental
  let values_ : List Bytes := (split 47 vector_)
  let lastErr_ : Option Err := (none : Option Err)
  match forEach values_ (o, lastErr_) (fun (o, lastErr_) value_ =>
        match Gen.D2.Environmental_decodeOne o value_ with
          | none => none
          | some (o, t1_) =>
            let err_ : Option Err := t1_
            if (err_).isSome then
              if (!(err_ == (some Err.notSupportMetric))) then
                some (Step.ret ((some o, (false, err_))))
              else
                let lastErr_ : Option Err := err_
                some (Step.next (o, lastErr_))
            else
              some (Step.next (o, lastErr_))) with
    | none => none
    | some (Step.ret r_) => some r_
    | some (Step.next (o, lastErr_)) =>
      if (lastErr_).isSome then
        some (some o, (false, lastErr_))
      else
        match Gen.D2.Environmental_Encode o  with
          | none => none
          | some (o, (t2_, t3_)) =>
            let enc_ : Bytes := t2_
            let err_ : Option Err := t3_
            if (err_).isSome then
              some (some o, (false, err_))
            else
              if (vector_ != enc_) then
                some (some o, (false, (some Err.misordered)))
              else
                some (some o, (true, (none : Option Err)))

-- @def Temporal_BaseMetrics
@[gdec] def Temporal_BaseMetrics (o : Obj2) : Option (Obj2 × Bool) :=
  some (o, true)

-- @def Temporal_BaseMetrics_nil
@[gdec] def Temporal_BaseMetrics_nil  : Option (Option Obj2 × Bool) :=
  some (none, false)

-- @def Environmental_BaseMetrics
@[gdec] def Environmental_BaseMetrics (o : Obj2) : Option (Obj2 × Bool) :=
  some (o, true)

-- @def Environmental_BaseMetrics_nil
@[gdec] def Environmental_BaseMetrics_nil  : Option (Option Obj2 × Bool) :=
  some (none, false)

-- @def Environmental_TemporalMetrics
@[gdec] def Environmental_TemporalMetrics (o : Obj2) : Option (Obj2 × Bool) :=
  some (o, true)

-- @def Environmental_TemporalMetrics_nil
@[gdec] def Environmental_TemporalMetrics_nil  : Option (Option Obj2 × Bool) :=
  some (none, false)

-- @def markSites
/-- every `x.names[k] = true` of the source: the struct (level) whose map is written and the metric name k is known to be
    at that point; each must be the name of a metric of that level (proved in Proofs/Decoders.lean) -/
def markSites : List (Level × Bytes) := [(Level.base, ([65] : Bytes)), (Level.base, ([65, 67] : Bytes)), (Level.base, ([65, 86] : Bytes)), (Level.base, ([65, 117] : Bytes)), (Level.base, ([67] : Bytes)), (Level.base, ([73] : Bytes)), (Level.environmental, ([65, 82] : Bytes)), (Level.environmental, ([67, 68, 80] : Bytes)), (Level.environmental, ([67, 82] : Bytes)), (Level.environmental, ([73, 82] : Bytes)), (Level.environmental, ([84, 68] : Bytes)), (Level.temporal, ([69] : Bytes)), (Level.temporal, ([82, 67] : Bytes)), (Level.temporal, ([82, 76] : Bytes))]

end CvssVerif.Gen.D2

namespace CvssVerif.Gen.Errs
open CvssVerif

-- @def sentinels
/-- the package-level variables of /repo/cvsserr: name, "new" when the initialiser is `errors.New(<string literal>)`, the message -/
def sentinels : List (String × String × Bytes) := [("ErrInvalidTemplate", "new", ([105, 110, 118, 97, 108, 105, 100, 32, 116, 101, 109, 112, 108, 101, 116, 101, 32, 115, 116, 114, 105, 110, 103] : Bytes)),
  ("ErrInvalidValue", "new", ([105, 110, 118, 97, 108, 105, 100, 32, 118, 97, 108, 117, 101, 32, 111, 102, 32, 109, 101, 116, 114, 105, 99] : Bytes)),
  ("ErrInvalidVector", "new", ([105, 110, 118, 97, 108, 105, 100, 32, 118, 101, 99, 116, 111, 114] : Bytes)),
  ("ErrMisordered", "new", ([109, 105, 115, 111, 114, 100, 101, 114, 101, 100, 32, 118, 101, 99, 116, 111, 114, 32, 115, 116, 114, 105, 110, 103] : Bytes)),
  ("ErrNoBaseMetrics", "new", ([110, 111, 32, 66, 97, 115, 101, 32, 109, 101, 116, 114, 105, 99, 115] : Bytes)),
  ("ErrNoEnvironmentalMetrics", "new", ([110, 111, 32, 69, 110, 118, 105, 114, 111, 110, 109, 101, 110, 116, 97, 108, 32, 109, 101, 116, 114, 105, 99, 115] : Bytes)),
  ("ErrNoTemporalMetrics", "new", ([110, 111, 32, 84, 101, 109, 112, 111, 114, 97, 108, 32, 109, 101, 116, 114, 105, 99, 115] : Bytes)),
  ("ErrNotSupportMetric", "new", ([110, 111, 116, 32, 115, 117, 112, 112, 111, 114, 116, 32, 109, 101, 116, 114, 105, 99] : Bytes)),
  ("ErrNotSupportVer", "new", ([110, 111, 116, 32, 115, 117, 112, 112, 111, 114, 116, 32, 118, 101, 114, 115, 105, 111, 110] : Bytes)),
  ("ErrNullPointer", "new", ([78, 117, 108, 108, 32, 114, 101, 102, 101, 114, 101, 110, 99, 101, 32, 105, 110, 115, 116, 97, 110, 99, 101] : Bytes)),
  ("ErrSameMetric", "new", ([101, 120, 105, 115, 116, 32, 115, 97, 109, 101, 32, 109, 101, 116, 114, 105, 99] : Bytes))]

end CvssVerif.Gen.Errs
