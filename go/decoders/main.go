// decoders: regenerates lean/CvssVerif/Generated/Decoders.lean from the *source text* of the constructors, `Decode`,
// `decodeOne`, `GetError`, `Encode`, `String`, `IsEmpty` and `GetVersion` of /repo/v3/metric and /repo/v2/metric on every
// run (go/parser only).
//
// The three struct types Environmental ⊃ *Temporal ⊃ *Base share one underlying object (pointer embedding); the translation
// works on the model's flat object (`Obj3` / `Obj2`: `ver`, `field : M → Int`, `named : M → Bool`) and threads it through the
// statements (an assignment to a field is `o.set`, `x.names[name] = true` is `o.mark`).  Every generated function returns
// `Option …`: `none` is a run-time panic (index out of range, use of a nil receiver), so the equalities proved about the
// generated functions (`Proofs/Decoders.lean`) also say that the source never panics at these sites.  Each method is
// translated twice: for a non-nil receiver and (`…_nil`) for the nil receiver.
//
// Subset: var / := / = / field assignment / `names[k] = true` / append / WriteString; if (with init, else, else-if),
// switch (tag, `true`, tag-less; no fallthrough), `for _, v := range <[]string>` with early returns, return; calls of the
// other translated functions and of the per-metric functions of go/tables; strings.Split / Join, fmt.Sprintf with %v / %s,
// len, indexing and `xs[1:]` (guarded), errs.Wrap (the wrapped sentinel), errs.Is, cvsserr sentinels, == != && || !.
// The `names` maps are keyed by strings in Go and by metrics in the model: a write `x.names[k] = true` is accepted only
// where the path condition says that k is the name constant of a metric declared in x's own struct (emitted as the
// obligation `markSites`), a read with a variable key is `namesGet` (the value recorded for the metric of that level
// with that name, false for every other string).  Anything else makes the function "not understood": it keeps the text of
// the reference translation, is listed, and nothing is claimed about it.
//
// usage: decoders <repo> <out.lean> [reference.lean]
package main

import (
	"fmt"
	"go/ast"
	"go/build"
	"go/parser"
	"go/token"
	"os"
	"path/filepath"
	"regexp"
	"sort"
	"strconv"
	"strings"
)

type notUnderstood struct{ msg string }

// buildOK: the file is part of the package as the compiler sees it here (no test file; its build constraints — //go:build lines and
// _GOOS / _GOARCH suffixes — are satisfied without extra tags, so verif_hooks.go is left out)
func buildOK(dir string) func(os.FileInfo) bool {
	return func(fi os.FileInfo) bool {
		if strings.HasSuffix(fi.Name(), "_test.go") {
			return false
		}
		ok, err := build.Default.MatchFile(dir, fi.Name())
		return err == nil && ok
	}
}

func fail(f string, a ...interface{}) { panic(notUnderstood{fmt.Sprintf(f, a...)}) }

var levelOf = map[string]string{"Base": "base", "Temporal": "temporal", "Environmental": "environmental"}

// the model's metrics (constructors of M3 / M2), per version
var modelMetrics = map[int][]string{
	3: {"AV", "AC", "PR", "UI", "S", "C", "I", "A", "E", "RL", "RC", "CR", "IR", "AR", "MAV", "MAC", "MPR", "MUI", "MS", "MC", "MI", "MA"},
	2: {"AV", "AC", "Au", "C", "I", "A", "E", "RL", "RC", "CDP", "TD", "CR", "IR", "AR"},
}

var errName = map[string]string{"ErrNullPointer": "nullPointer", "ErrInvalidVector": "invalidVector", "ErrNotSupportVer": "notSupportVer",
	"ErrNotSupportMetric": "notSupportMetric", "ErrInvalidTemplate": "invalidTemplate", "ErrSameMetric": "sameMetric",
	"ErrInvalidValue": "invalidValue", "ErrNoBaseMetrics": "noBaseMetrics", "ErrNoTemporalMetrics": "noTemporalMetrics",
	"ErrNoEnvironmentalMetrics": "noEnvironmentalMetrics", "ErrMisordered": "misordered"}

type field struct {
	name  string
	typ   string // named int type, or "" for others
	embed string // embedded *Struct
	isMap bool
}

type pkgInfo struct {
	ver       int
	intTypes  map[string]bool
	consts    map[string]int64
	constTyp  map[string]string
	strConsts map[string]string
	structs   map[string][]field
	funcs     map[string]*ast.FuncDecl // "Base.Decode", "GetVersion"
	metricFns map[string]bool          // functions / methods on named int types (translated by go/tables)
}

func recvType(e ast.Expr) (string, bool) {
	switch t := e.(type) {
	case *ast.Ident:
		return t.Name, false
	case *ast.StarExpr:
		if id, ok := t.X.(*ast.Ident); ok {
			return id.Name, true
		}
	}
	return "?", false
}

func namedOf(e ast.Expr) string {
	if id, ok := e.(*ast.Ident); ok {
		return id.Name
	}
	return ""
}

func bytesLit(s string) string {
	b := []byte(s)
	parts := make([]string, len(b))
	for i, c := range b {
		parts[i] = strconv.Itoa(int(c))
	}
	return "([" + strings.Join(parts, ", ") + "] : Bytes)"
}

func load(dir string, ver int) *pkgInfo {
	fset := token.NewFileSet()
	pkgs, err := parser.ParseDir(fset, dir, buildOK(dir), 0)
	if err != nil {
		fmt.Fprintln(os.Stderr, "decoders:", err)
		os.Exit(1)
	}
	p := &pkgInfo{ver: ver, intTypes: map[string]bool{}, consts: map[string]int64{}, constTyp: map[string]string{}, strConsts: map[string]string{},
		structs: map[string][]field{}, funcs: map[string]*ast.FuncDecl{}, metricFns: map[string]bool{}}
	var files []*ast.File
	for _, pk := range pkgs {
		for _, f := range pk.Files {
			files = append(files, f)
		}
	}
	for _, f := range files {
		for _, d := range f.Decls {
			gd, ok := d.(*ast.GenDecl)
			if !ok {
				continue
			}
			switch gd.Tok {
			case token.TYPE:
				for _, sp := range gd.Specs {
					ts := sp.(*ast.TypeSpec)
					if id, ok := ts.Type.(*ast.Ident); ok && id.Name == "int" {
						p.intTypes[ts.Name.Name] = true
					}
					if st, ok := ts.Type.(*ast.StructType); ok {
						var fs []field
						for _, fl := range st.Fields.List {
							if len(fl.Names) == 0 {
								if n, ptr := recvType(fl.Type); ptr {
									fs = append(fs, field{name: n, embed: n})
								} else {
									fs = append(fs, field{name: n, embed: "?" + n})
								}
								continue
							}
							for _, n := range fl.Names {
								fd := field{name: n.Name}
								if id, ok := fl.Type.(*ast.Ident); ok {
									fd.typ = id.Name
								}
								if _, ok := fl.Type.(*ast.MapType); ok {
									fd.isMap = true
								}
								fs = append(fs, fd)
							}
						}
						p.structs[ts.Name.Name] = fs
					}
				}
			case token.CONST:
				iotaBlock := false
				typ := ""
				for i, sp := range gd.Specs {
					vs := sp.(*ast.ValueSpec)
					if i == 0 && len(vs.Values) == 1 {
						if id, ok := vs.Values[0].(*ast.Ident); ok && id.Name == "iota" {
							iotaBlock = true
							typ = namedOf(vs.Type)
						}
					}
					if iotaBlock {
						if i > 0 && len(vs.Values) != 0 {
							iotaBlock = false
							continue
						}
						for _, n := range vs.Names {
							p.consts[n.Name] = int64(i)
							p.constTyp[n.Name] = typ
						}
						continue
					}
					for j, n := range vs.Names {
						if j < len(vs.Values) {
							if bl, ok := vs.Values[j].(*ast.BasicLit); ok && bl.Kind == token.STRING {
								if s, err := strconv.Unquote(bl.Value); err == nil {
									p.strConsts[n.Name] = s
								}
							}
						}
					}
				}
			}
		}
	}
	for _, f := range files {
		for _, d := range f.Decls {
			x, ok := d.(*ast.FuncDecl)
			if !ok {
				continue
			}
			name := x.Name.Name
			if x.Recv != nil && len(x.Recv.List) == 1 {
				rt, _ := recvType(x.Recv.List[0].Type)
				name = rt + "." + name
				if p.intTypes[rt] {
					p.metricFns[name] = true
				}
			} else if x.Type.Results != nil && len(x.Type.Results.List) == 1 && p.intTypes[namedOf(x.Type.Results.List[0].Type)] &&
				len(x.Type.Params.List) == 1 && namedOf(x.Type.Params.List[0].Type) == "string" {
				p.metricFns[name] = true
			}
			p.funcs[name] = x
		}
	}
	return p
}

// ---------------------------------------------------------------------------------------------------------------------

// types: "obj:<Struct>", "int:<Named>", "string", "bool", "err", "strs", "builder", "nat", "nil", "num"
type val struct {
	txt string
	typ string
	lit string
}

type pend struct {
	kind string // "call" | "guard"
	txt  string // call text / guard condition
	pat  string // pattern for the call result (without the object)
}

type env struct {
	vars  map[string]string // Go local -> type
	names map[string]string // Go local -> Lean name (when it is not <name>_: an inner declaration that shadows an outer one)
	facts map[string]string // string variable -> the string constant it is known to equal
	recv  string            // receiver identifier
	rtyp  string            // its struct type
	isNil bool              // static: the receiver is nil on this path
}

func (e *env) clone() *env {
	n := &env{vars: map[string]string{}, names: map[string]string{}, facts: map[string]string{}, recv: e.recv, rtyp: e.rtyp, isNil: e.isNil}
	for k, v := range e.vars {
		n.vars[k] = v
	}
	for k, v := range e.names {
		n.names[k] = v
	}
	for k, v := range e.facts {
		n.facts[k] = v
	}
	return n
}

type fsig struct {
	recv   string   // struct type, "" for plain functions
	params []string // types
	res    []string // result types
	plain  bool
}

type tr struct {
	p       *pkgInfo
	ns      string // "D3"
	tns     string // "Gen.T3"
	obj     string // "Obj3"
	sigs    map[string]fsig
	pending []pend
	tmp     int
	cur     fsig
	ret     func(string, bool) string // wraps the result tuple of a `return` (second argument: the receiver is nil here)
	marks   map[string]bool           // level|name
	ctorOK  map[string]bool
	badFns  map[string]string
	shadowOK bool
	shadowN  int
	joining  int
	blocks   map[string]string
	order    []string
	doneFns  map[string]bool
	active   map[string]bool
}

// ensure translates (once) a function of the package that a translated function calls
func (t *tr) ensure(name string) {
	if t.doneFns[name] {
		return
	}
	if msg, isBad := t.badFns[name]; isBad {
		fail("calls %s, which is not understood (%s)", name, msg)
	}
	if t.active[name] {
		fail("recursion through %s", name)
	}
	t.active[name] = true
	savedCur, savedPending, savedTmp, savedRet, savedShadow, savedJoin := t.cur, t.pending, t.tmp, t.ret, t.shadowOK, t.joining
	t.joining = 0
	var problem *notUnderstood
	func() {
		defer func() {
			if r := recover(); r != nil {
				if nu, ok := r.(notUnderstood); ok {
					problem = &nu
					return
				}
				if _, ok := r.(nilDeref); ok {
					problem = &notUnderstood{"use of the nil receiver outside a statement"}
					return
				}
				if _, ok := r.(joinFail); ok {
					problem = &notUnderstood{"internal: join"}
					return
				}
				panic(r)
			}
		}()
		if strings.HasPrefix(name, "New") && t.p.funcs[name] != nil && t.p.funcs[name].Recv == nil {
			t.blocks[name] = t.constructor(name)
			t.order = append(t.order, name)
			t.ctorOK[name] = true
			return
		}
		outs := t.method(name)
		dn := defName(name)
		t.blocks[dn] = outs[0]
		t.order = append(t.order, dn)
		if len(outs) > 1 {
			t.blocks[dn+"_nil"] = outs[1]
			t.order = append(t.order, dn+"_nil")
		}
	}()
	t.cur, t.pending, t.tmp, t.ret, t.shadowOK, t.joining = savedCur, savedPending, savedTmp, savedRet, savedShadow, savedJoin
	delete(t.active, name)
	if problem != nil {
		t.badFns[name] = problem.msg
		fail("calls %s, which is not understood (%s)", name, problem.msg)
	}
	t.doneFns[name] = true
}

func lv(n string) string { return n + "_" }

func (e *env) lean(n string) string {
	if e.names != nil {
		if l, ok := e.names[n]; ok {
			return l
		}
	}
	return n + "_"
}

func (t *tr) metricCtor(name string) (string, bool) {
	for _, m := range modelMetrics[t.p.ver] {
		if m == name {
			return m, true
		}
	}
	return "", false
}

// which struct (searching the embedding chain from st) declares field f; returns the field
func (t *tr) findField(st, f string) (field, string, bool) {
	for depth := 0; depth < 4 && st != ""; depth++ {
		next := ""
		for _, fd := range t.p.structs[st] {
			if fd.name == f && fd.embed == "" {
				return fd, st, true
			}
			if fd.embed != "" && !strings.HasPrefix(fd.embed, "?") {
				next = fd.embed
			}
		}
		st = next
	}
	return field{}, "", false
}

func (t *tr) embeds(st, target string) bool {
	for depth := 0; depth < 4 && st != ""; depth++ {
		if st == target {
			return true
		}
		next := ""
		for _, fd := range t.p.structs[st] {
			if fd.embed != "" && !strings.HasPrefix(fd.embed, "?") {
				next = fd.embed
			}
		}
		st = next
	}
	return false
}

func leanRes(res []string) string {
	var parts []string
	for _, r := range res {
		switch {
		case r == "err":
			parts = append(parts, "Option Err")
		case r == "string":
			parts = append(parts, "Bytes")
		case r == "bool":
			parts = append(parts, "Bool")
		case strings.HasPrefix(r, "obj:"):
			parts = append(parts, "Bool")
		case strings.HasPrefix(r, "int:"):
			parts = append(parts, "Int")
		default:
			fail("result type %s", r)
		}
	}
	return strings.Join(parts, " × ")
}

func (t *tr) goType(e ast.Expr) string {
	switch x := e.(type) {
	case *ast.Ident:
		switch x.Name {
		case "string":
			return "string"
		case "bool":
			return "bool"
		case "error":
			return "err"
		}
		if t.p.intTypes[x.Name] {
			return "int:" + x.Name
		}
	case *ast.StarExpr:
		if id, ok := x.X.(*ast.Ident); ok {
			if _, ok := t.p.structs[id.Name]; ok && levelOf[id.Name] != "" {
				return "obj:" + id.Name
			}
		}
	case *ast.ArrayType:
		if x.Len == nil && namedOf(x.Elt) == "string" {
			return "strs"
		}
	}
	fail("type outside the subset")
	return ""
}

func (t *tr) sigOf(name string) (fsig, bool) {
	if s, ok := t.sigs[name]; ok {
		return s, true
	}
	fd, ok := t.p.funcs[name]
	if !ok {
		return fsig{}, false
	}
	var s fsig
	okSig := true
	func() {
		defer func() {
			if r := recover(); r != nil {
				if _, isNU := r.(notUnderstood); isNU {
					okSig = false
					return
				}
				panic(r)
			}
		}()
		if fd.Recv != nil {
			rt, ptr := recvType(fd.Recv.List[0].Type)
			if !ptr || levelOf[rt] == "" {
				fail("receiver")
			}
			s.recv = rt
		} else {
			s.plain = true
		}
		for _, f := range fd.Type.Params.List {
			ty := t.goType(f.Type)
			n := len(f.Names)
			if n == 0 {
				n = 1
			}
			for i := 0; i < n; i++ {
				s.params = append(s.params, ty)
			}
		}
		if fd.Type.Results != nil {
			for _, f := range fd.Type.Results.List {
				if len(f.Names) > 0 {
					fail("named results")
				}
				s.res = append(s.res, t.goType(f.Type))
			}
		}
		if len(s.res) == 0 {
			fail("no result")
		}
		leanRes(s.res)
	}()
	if !okSig {
		return fsig{}, false
	}
	t.sigs[name] = s
	return s, true
}

func defName(n string) string { return strings.ReplaceAll(n, ".", "_") }

func (t *tr) fresh() string {
	t.tmp++
	return fmt.Sprintf("t%d_", t.tmp)
}

// receiverLike: does the expression denote the (flattened) object? returns its static struct type
func (t *tr) objExpr(x ast.Expr, e *env) (string, bool) {
	switch v := x.(type) {
	case *ast.ParenExpr:
		return t.objExpr(v.X, e)
	case *ast.Ident:
		if v.Name == e.recv && e.recv != "" {
			return e.rtyp, true
		}
	case *ast.SelectorExpr:
		if st, ok := t.objExpr(v.X, e); ok {
			// an embedded struct of st, directly or promoted through the embedding chain (em.Base is em.Temporal.Base)
			if v.Sel.Name != st && levelOf[v.Sel.Name] != "" && t.embeds(st, v.Sel.Name) {
				return v.Sel.Name, true
			}
		}
	}
	return "", false
}

func (t *tr) useObj(e *env) {
	if e.isNil {
		fail("nil-deref") // handled by the caller: a use of the nil receiver is a panic on this path
	}
}

type nilDeref struct{}

func zero(typ string) string {
	switch {
	case typ == "err":
		return "(none : Option Err)"
	case typ == "string":
		return "([] : Bytes)"
	case typ == "bool":
		return "false"
	case typ == "strs":
		return "([] : List Bytes)"
	case strings.HasPrefix(typ, "int:"):
		return "(0 : Int)"
	}
	fail("no zero value for %s", typ)
	return ""
}

func leanTy(typ string) string {
	switch {
	case typ == "err":
		return "Option Err"
	case typ == "string", typ == "builder":
		return "Bytes"
	case typ == "bool":
		return "Bool"
	case typ == "strs":
		return "List Bytes"
	case typ == "nat":
		return "Nat"
	case strings.HasPrefix(typ, "int:"):
		return "Int"
	}
	fail("no Lean type for %s", typ)
	return ""
}

func (t *tr) coerce(v val, typ string) string {
	if v.typ == typ {
		return v.txt
	}
	if strings.HasPrefix(v.typ, "int:") && strings.HasPrefix(typ, "int:") {
		return v.txt // distinct named types do not mix in compiled Go
	}
	if v.typ == "num" {
		n, err := strconv.ParseInt(v.lit, 0, 64)
		if err != nil {
			fail("literal %s", v.lit)
		}
		if typ == "nat" {
			return fmt.Sprintf("(%d : Nat)", n)
		}
		if strings.HasPrefix(typ, "int:") {
			return fmt.Sprintf("(%d : Int)", n)
		}
	}
	if v.typ == "nil" && typ == "err" {
		return "(none : Option Err)"
	}
	if v.typ == "builder" && typ == "string" {
		return v.txt
	}
	fail("type mismatch %s vs %s", v.typ, typ)
	return ""
}

func (t *tr) expr(x ast.Expr, e *env) val {
	switch v := x.(type) {
	case *ast.ParenExpr:
		return t.expr(v.X, e)
	case *ast.BasicLit:
		switch v.Kind {
		case token.STRING:
			s, err := strconv.Unquote(v.Value)
			if err != nil {
				fail("string literal")
			}
			return val{txt: bytesLit(s), typ: "string"}
		case token.INT:
			return val{typ: "num", lit: v.Value}
		}
		fail("literal kind")
	case *ast.Ident:
		switch v.Name {
		case "true", "false":
			return val{txt: v.Name, typ: "bool"}
		case "nil":
			return val{typ: "nil"}
		}
		if ty, ok := e.vars[v.Name]; ok {
			return val{txt: e.lean(v.Name), typ: ty}
		}
		if c, ok := t.p.consts[v.Name]; ok {
			return val{txt: fmt.Sprintf("(%d : Int)", c), typ: "int:" + t.p.constTyp[v.Name]}
		}
		if s, ok := t.p.strConsts[v.Name]; ok {
			return val{txt: bytesLit(s), typ: "string"}
		}
		if v.Name == e.recv {
			fail("receiver used as a value")
		}
		fail("identifier %s", v.Name)
	case *ast.UnaryExpr:
		if v.Op == token.NOT {
			a := t.expr(v.X, e)
			return val{txt: "(!" + t.coerce(a, "bool") + ")", typ: "bool"}
		}
		if v.Op == token.AND {
			if cl, ok := v.X.(*ast.CompositeLit); ok {
				if se, ok := cl.Type.(*ast.SelectorExpr); ok && namedOf(se.X) == "strings" && se.Sel.Name == "Builder" && len(cl.Elts) == 0 {
					return val{txt: "([] : Bytes)", typ: "builder"}
				}
			}
		}
		fail("unary %s", v.Op)
	case *ast.CompositeLit:
		if at, ok := v.Type.(*ast.ArrayType); ok && at.Len == nil && namedOf(at.Elt) == "string" && len(v.Elts) == 0 {
			return val{txt: "([] : List Bytes)", typ: "strs"}
		}
		fail("composite literal")
	case *ast.BinaryExpr:
		switch v.Op {
		case token.LAND, token.LOR:
			a := t.expr(v.X, e)
			n := len(t.pending)
			b := t.expr(v.Y, e)
			if len(t.pending) != n {
				fail("call or index under a short-circuit operator")
			}
			op := map[token.Token]string{token.LAND: "&&", token.LOR: "||"}[v.Op]
			return val{txt: "(" + t.coerce(a, "bool") + " " + op + " " + t.coerce(b, "bool") + ")", typ: "bool"}
		case token.EQL, token.NEQ:
			// receiver == nil
			if _, isObj := t.objExpr(v.X, e); isObj && namedOf(v.Y) == "nil" {
				if namedOf(v.X) != e.recv {
					fail("nil test of an embedded object")
				}
				if (v.Op == token.EQL) == e.isNil {
					return val{txt: "true", typ: "bool"}
				}
				return val{txt: "false", typ: "bool"}
			}
			a, b := t.expr(v.X, e), t.expr(v.Y, e)
			if a.typ == "nil" {
				a, b = b, a
			}
			if a.typ == "err" && b.typ == "nil" {
				if v.Op == token.NEQ {
					return val{txt: "(" + a.txt + ").isSome", typ: "bool"}
				}
				return val{txt: "(" + a.txt + ").isNone", typ: "bool"}
			}
			ty := a.typ
			if ty == "num" {
				ty = b.typ
			}
			if !(strings.HasPrefix(ty, "int:") || ty == "string" || ty == "bool" || ty == "nat") {
				fail("comparison of %s", ty)
			}
			op := map[token.Token]string{token.EQL: "==", token.NEQ: "!="}[v.Op]
			return val{txt: "(" + t.coerce(a, ty) + " " + op + " " + t.coerce(b, ty) + ")", typ: "bool"}
		}
		fail("operator %s", v.Op)
	case *ast.SelectorExpr:
		// cvsserr.ErrX
		if namedOf(v.X) == "cvsserr" {
			if n, ok := errName[v.Sel.Name]; ok {
				return val{txt: "(some Err." + n + ")", typ: "err"}
			}
			fail("sentinel %s", v.Sel.Name)
		}
		// field of the object
		if st, ok := t.objExpr(v.X, e); ok {
			t.useObj(e)
			fd, _, ok := t.findField(st, v.Sel.Name)
			if !ok {
				fail("field %s", v.Sel.Name)
			}
			if fd.name == "Ver" && t.p.ver == 3 {
				return val{txt: "o.ver", typ: "int:" + fd.typ}
			}
			if m, ok := t.metricCtor(fd.name); ok && t.p.intTypes[fd.typ] {
				return val{txt: "(o.field ." + m + ")", typ: "int:" + fd.typ}
			}
			fail("field %s is not a metric of the model", fd.name)
		}
		fail("selector")
	case *ast.IndexExpr:
		// x.names[k]
		if se, ok := v.X.(*ast.SelectorExpr); ok {
			if st, ok := t.objExpr(se.X, e); ok {
				t.useObj(e)
				fd, owner, ok := t.findField(st, se.Sel.Name)
				if !ok || !fd.isMap || fd.name != "names" {
					fail("index of field %s", se.Sel.Name)
				}
				// the names map of `owner`
				_ = owner
				ownerSt := t.namesOwner(st)
				return t.namesRead(ownerSt, v.Index, e)
			}
		}
		xs := t.expr(v.X, e)
		if xs.typ != "strs" {
			fail("index of %s", xs.typ)
		}
		i := t.expr(v.Index, e)
		it := t.coerce(i, "nat")
		t.pending = append(t.pending, pend{kind: "guard", txt: "(" + it + " < (" + xs.txt + ").length)"})
		return val{txt: "((" + xs.txt + ").getD " + it + " [])", typ: "string"}
	case *ast.SliceExpr:
		xs := t.expr(v.X, e)
		if xs.typ != "strs" || v.High != nil || v.Max != nil || v.Low == nil {
			fail("slice expression")
		}
		it := t.coerce(t.expr(v.Low, e), "nat")
		t.pending = append(t.pending, pend{kind: "guard", txt: "(" + it + " ≤ (" + xs.txt + ").length)"})
		return val{txt: "((" + xs.txt + ").drop " + it + ")", typ: "strs"}
	case *ast.CallExpr:
		return t.call(v, e)
	}
	fail("expression outside the subset (%T)", x)
	return val{}
}

// the struct whose `names` field is reached from a value of static type st (the nearest declaration)
func (t *tr) namesOwner(st string) string {
	for depth := 0; depth < 4 && st != ""; depth++ {
		next := ""
		for _, fd := range t.p.structs[st] {
			if fd.name == "names" && fd.isMap {
				return st
			}
			if fd.embed != "" && !strings.HasPrefix(fd.embed, "?") {
				next = fd.embed
			}
		}
		st = next
	}
	fail("no names map")
	return ""
}

// the metrics declared as fields of struct st itself
func (t *tr) ownMetrics(st string) map[string]bool {
	res := map[string]bool{}
	for _, fd := range t.p.structs[st] {
		if _, ok := t.metricCtor(fd.name); ok && t.p.intTypes[fd.typ] {
			res[fd.name] = true
		}
	}
	return res
}

func (t *tr) constString(x ast.Expr, e *env) (string, bool) {
	switch v := x.(type) {
	case *ast.ParenExpr:
		return t.constString(v.X, e)
	case *ast.BasicLit:
		if v.Kind == token.STRING {
			s, err := strconv.Unquote(v.Value)
			return s, err == nil
		}
	case *ast.Ident:
		if _, isVar := e.vars[v.Name]; isVar {
			s, ok := e.facts[v.Name]
			return s, ok
		}
		s, ok := t.p.strConsts[v.Name]
		return s, ok
	}
	return "", false
}

func (t *tr) namesRead(owner string, key ast.Expr, e *env) val {
	if id, ok := key.(*ast.Ident); ok {
		if _, isVar := e.vars[id.Name]; isVar {
			// variable key: the recorded value for the metric of this level with that name
			k := t.expr(key, e)
			return val{txt: "(namesGet Level." + levelOf[owner] + " o " + t.coerce(k, "string") + ")", typ: "bool"}
		}
	}
	s, ok := t.constString(key, e)
	if !ok {
		fail("names key")
	}
	if m, ok := t.metricCtor(s); ok && t.ownMetrics(owner)[m] {
		return val{txt: "(o.named ." + m + ")", typ: "bool"}
	}
	// a constant key that is not a metric of this struct is never written (markSites): reads false
	return val{txt: "false", typ: "bool"}
}

func (t *tr) call(c *ast.CallExpr, e *env) val {
	switch f := c.Fun.(type) {
	case *ast.Ident:
		switch f.Name {
		case "len":
			if len(c.Args) != 1 {
				fail("len")
			}
			a := t.expr(c.Args[0], e)
			if a.typ != "strs" && a.typ != "string" {
				fail("len of %s", a.typ)
			}
			return val{txt: "(" + a.txt + ").length", typ: "nat"}
		case "append":
			if len(c.Args) != 2 {
				fail("append")
			}
			a := t.expr(c.Args[0], e)
			b := t.expr(c.Args[1], e)
			if a.typ != "strs" {
				fail("append to %s", a.typ)
			}
			return val{txt: "(" + a.txt + " ++ [" + t.coerce(b, "string") + "])", typ: "strs"}
		}
		// per-metric function of go/tables
		if t.p.metricFns[f.Name] {
			var args []string
			for _, a := range c.Args {
				args = append(args, t.coerce(t.expr(a, e), "string"))
			}
			fd := t.p.funcs[f.Name]
			return val{txt: "(" + t.tns + "." + f.Name + " " + strings.Join(args, " ") + ")", typ: "int:" + namedOf(fd.Type.Results.List[0].Type)}
		}
		// plain translated function
		if sig, ok := t.sigOf(f.Name); ok && sig.plain {
			return t.emitCall(f.Name, sig, nil, c.Args, e)
		}
		fail("call of %s", f.Name)
	case *ast.SelectorExpr:
		pk := namedOf(f.X)
		switch pk + "." + f.Sel.Name {
		case "errs.Wrap":
			if len(c.Args) < 1 {
				fail("errs.Wrap")
			}
			for _, a := range c.Args[1:] {
				ce, ok := a.(*ast.CallExpr)
				if !ok {
					fail("errs.Wrap option")
				}
				se, ok := ce.Fun.(*ast.SelectorExpr)
				if !ok || namedOf(se.X) != "errs" || se.Sel.Name != "WithContext" {
					fail("errs.Wrap option")
				}
			}
			a := t.expr(c.Args[0], e)
			return val{txt: t.coerce(a, "err"), typ: "err"}
		case "errs.Is", "errors.Is":
			if len(c.Args) != 2 {
				fail("errs.Is")
			}
			a, b := t.expr(c.Args[0], e), t.expr(c.Args[1], e)
			if !strings.HasPrefix(b.txt, "(some Err.") {
				fail("errs.Is target")
			}
			return val{txt: "(" + t.coerce(a, "err") + " == " + b.txt + ")", typ: "bool"}
		case "strings.Split", "strings.Join":
			if len(c.Args) != 2 {
				fail("strings.%s", f.Sel.Name)
			}
			sep, ok := t.constString(c.Args[1], &env{vars: map[string]string{}, names: map[string]string{}})
			if !ok || len(sep) != 1 {
				fail("separator")
			}
			a := t.expr(c.Args[0], e)
			if f.Sel.Name == "Split" {
				return val{txt: "(split " + strconv.Itoa(int(sep[0])) + " " + t.coerce(a, "string") + ")", typ: "strs"}
			}
			return val{txt: "(join " + strconv.Itoa(int(sep[0])) + " " + t.coerce(a, "strs") + ")", typ: "string"}
		case "fmt.Sprintf":
			return t.sprintf(c, e)
		}
		// builder.String()
		if id, ok := f.X.(*ast.Ident); ok && e.vars[id.Name] == "builder" && f.Sel.Name == "String" && len(c.Args) == 0 {
			return val{txt: e.lean(id.Name), typ: "string"}
		}
		// method of the object
		if st, ok := t.objExpr(f.X, e); ok {
			// find the method along the embedding chain
			cur := st
			for depth := 0; depth < 4 && cur != ""; depth++ {
				if sig, ok := t.sigOf(cur + "." + f.Sel.Name); ok {
					return t.emitCall(cur+"."+f.Sel.Name, sig, f.X, c.Args, e)
				}
				if _, exists := t.p.funcs[cur+"."+f.Sel.Name]; exists {
					fail("method %s.%s has a signature outside the subset", cur, f.Sel.Name)
				}
				next := ""
				for _, fd := range t.p.structs[cur] {
					if fd.embed != "" && !strings.HasPrefix(fd.embed, "?") {
						next = fd.embed
					}
				}
				cur = next
			}
			fail("method %s", f.Sel.Name)
		}
		// method of a metric value: x.F.M(args) -> go/tables function
		recv := t.expr(f.X, e)
		if strings.HasPrefix(recv.typ, "int:") {
			name := strings.TrimPrefix(recv.typ, "int:") + "." + f.Sel.Name
			if !t.p.metricFns[name] {
				fail("method %s", name)
			}
			args := []string{recv.txt}
			for _, a := range c.Args {
				av := t.expr(a, e)
				if !strings.HasPrefix(av.typ, "int:") {
					fail("argument of %s", name)
				}
				args = append(args, av.txt)
			}
			fd := t.p.funcs[name]
			rt := namedOf(fd.Type.Results.List[0].Type)
			ty := map[string]string{"string": "string", "bool": "bool"}[rt]
			if ty == "" {
				fail("result of %s", name)
			}
			return val{txt: "(" + t.tns + "." + defName(name) + " " + strings.Join(args, " ") + ")", typ: ty}
		}
		fail("call of %s.%s", pk, f.Sel.Name)
	}
	fail("call")
	return val{}
}

// a call of a translated function: bound before the statement (pending), the result is a fresh variable (or tuple)
func (t *tr) emitCall(name string, sig fsig, recv ast.Expr, args []ast.Expr, e *env) val {
	var as []string
	t.ensure(name)
	if len(args) != len(sig.params) {
		fail("arity of %s", name)
	}
	for i, a := range args {
		as = append(as, t.coerce(t.expr(a, e), sig.params[i]))
	}
	dn := t.ns + "." + defName(name)
	var vars []string
	for range sig.res {
		vars = append(vars, t.fresh())
	}
	pat := strings.Join(vars, ", ")
	if len(vars) > 1 {
		pat = "(" + pat + ")"
	}
	if sig.plain {
		t.pending = append(t.pending, pend{kind: "plain", txt: dn + " " + strings.Join(as, " "), pat: pat})
	} else {
		if e.isNil {
			if namedOf(recv) != e.recv {
				panic(nilDeref{})
			}
			// method called on the nil receiver itself: the callee's nil translation
			t.pending = append(t.pending, pend{kind: "nilcall", txt: dn + "_nil " + strings.Join(as, " "), pat: pat})
		} else {
			t.pending = append(t.pending, pend{kind: "call", txt: dn + " o " + strings.Join(as, " "), pat: pat})
		}
	}
	if len(vars) == 1 {
		return val{txt: vars[0], typ: sig.res[0]}
	}
	return val{txt: strings.Join(vars, ","), typ: "tuple:" + strings.Join(sig.res, ",")}
}

var verbRe = regexp.MustCompile(`%[vs]`)

func (t *tr) sprintf(c *ast.CallExpr, e *env) val {
	if len(c.Args) < 1 {
		fail("Sprintf")
	}
	f, ok := t.constString(c.Args[0], &env{vars: map[string]string{}, names: map[string]string{}})
	if !ok {
		fail("Sprintf format")
	}
	locs := verbRe.FindAllStringIndex(f, -1)
	if strings.Count(f, "%") != len(locs) || len(locs) != len(c.Args)-1 {
		fail("Sprintf verbs")
	}
	var parts []string
	pos := 0
	for i, l := range locs {
		if l[0] > pos {
			parts = append(parts, bytesLit(f[pos:l[0]]))
		}
		a := t.expr(c.Args[i+1], e)
		switch {
		case a.typ == "string":
			parts = append(parts, a.txt)
		case strings.HasPrefix(a.typ, "int:"):
			name := strings.TrimPrefix(a.typ, "int:") + ".String"
			if !t.p.metricFns[name] {
				fail("%%v of %s, which has no String method", a.typ)
			}
			if f[l[0]:l[1]] == "%s" || f[l[0]:l[1]] == "%v" {
				parts = append(parts, "("+t.tns+"."+defName(name)+" "+a.txt+")")
			}
		default:
			fail("Sprintf argument of type %s", a.typ)
		}
		pos = l[1]
	}
	if pos < len(f) {
		parts = append(parts, bytesLit(f[pos:]))
	}
	if len(parts) == 0 {
		return val{txt: "([] : Bytes)", typ: "string"}
	}
	return val{txt: "(" + strings.Join(parts, " ++ ") + ")", typ: "string"}
}

// flush wraps `code` (what follows) in the pending binds and guards, in evaluation order
func (t *tr) flush(from int, ind string, code func(ind string) string) string {
	ps := append([]pend{}, t.pending[from:]...)
	t.pending = t.pending[:from]
	if t.joining > 0 && len(ps) > 0 {
		panic(joinFail{})
	}
	var build func(i int, ind string) string
	build = func(i int, ind string) string {
		if i == len(ps) {
			return code(ind)
		}
		p := ps[i]
		switch p.kind {
		case "guard":
			return ind + "if " + p.txt + " then\n" + build(i+1, ind+"  ") + "\n" + ind + "else none"
		case "call":
			return ind + "match " + p.txt + " with\n" + ind + "  | none => none\n" + ind + "  | some (o, " + p.pat + ") =>\n" + build(i+1, ind+"    ")
		case "plain", "nilcall":
			pat := p.pat
			if p.kind == "nilcall" {
				pat = "(_, " + p.pat + ")"
			}
			return ind + "match " + p.txt + " with\n" + ind + "  | none => none\n" + ind + "  | some " + pat + " =>\n" + build(i+1, ind+"    ")
		}
		return ""
	}
	return build(0, ind)
}

type cont func(e *env, ind string) string

func (t *tr) retTuple(results []ast.Expr, e *env) (string, int) {
	from := len(t.pending)
	if len(results) != len(t.cur.res) {
		fail("return arity")
	}
	var parts []string
	for i, r := range results {
		want := t.cur.res[i]
		if strings.HasPrefix(want, "obj:") {
			if namedOf(r) == "nil" {
				parts = append(parts, "false")
				continue
			}
			if st, ok := t.objExpr(r, e); ok {
				_ = st
				if e.isNil {
					if namedOf(r) != e.recv {
						panic(nilDeref{}) // a field of the nil receiver
					}
					parts = append(parts, "false") // the nil receiver itself
				} else {
					parts = append(parts, "true")
				}
				continue
			}
			fail("returned pointer")
		}
		v := t.expr(r, e)
		if strings.HasPrefix(v.typ, "tuple:") {
			fail("tuple in return")
		}
		parts = append(parts, t.coerce(v, want))
	}
	s := strings.Join(parts, ", ")
	if len(parts) > 1 {
		s = "(" + s + ")"
	}
	return s, from
}

func (t *tr) stmts(list []ast.Stmt, e *env, ind string, k cont) (out string) {
	if len(list) == 0 {
		if k == nil {
			fail("control reaches the end of the function")
		}
		return k(e, ind)
	}
	// a use of the nil receiver on this path is a panic
	defer func() {
		if r := recover(); r != nil {
			if _, ok := r.(nilDeref); ok {
				t.pending = nil
				out = ind + "none"
				return
			}
			if nu, ok := r.(notUnderstood); ok && nu.msg == "nil-deref" {
				t.pending = nil
				out = ind + "none"
				return
			}
			panic(r)
		}
	}()
	rest := func(e2 *env, ind2 string) string { return t.stmts(list[1:], e2, ind2, k) }
	from := len(t.pending)
	switch s := list[0].(type) {
	case *ast.ReturnStmt:
		tup, fr := t.retTuple(s.Results, e)
		obj := "o"
		if e.isNil {
			obj = ""
		}
		return t.flush(fr, ind, func(ind string) string {
			if e.isNil {
				return ind + t.ret(tup, true)
			}
			_ = obj
			return ind + t.ret(tup, false)
		})
	case *ast.BlockStmt:
		return t.stmts(s.List, e, ind, rest)
	case *ast.DeclStmt:
		gd, ok := s.Decl.(*ast.GenDecl)
		if !ok || gd.Tok != token.VAR || len(gd.Specs) != 1 {
			fail("declaration")
		}
		vs := gd.Specs[0].(*ast.ValueSpec)
		if len(vs.Names) != 1 || vs.Type == nil || len(vs.Values) != 0 {
			fail("declaration form")
		}
		ty := t.goType(vs.Type)
		n := vs.Names[0].Name
		t.freshName(e, n)
		e2 := e.clone()
		e2.vars[n] = ty
		return ind + "let " + e2.lean(n) + " : " + leanTy(ty) + " := " + zero(ty) + "\n" + rest(e2, ind)
	case *ast.ExprStmt:
		// builder.WriteString(x)
		if c, ok := s.X.(*ast.CallExpr); ok {
			if se, ok := c.Fun.(*ast.SelectorExpr); ok && se.Sel.Name == "WriteString" && len(c.Args) == 1 {
				if id, ok := se.X.(*ast.Ident); ok && e.vars[id.Name] == "builder" {
					a := t.expr(c.Args[0], e)
					txt := t.coerce(a, "string")
					return t.flush(from, ind, func(ind string) string {
						return ind + "let " + e.lean(id.Name) + " : Bytes := " + e.lean(id.Name) + " ++ " + txt + "\n" + rest(e, ind)
					})
				}
			}
		}
		fail("expression statement")
	case *ast.AssignStmt:
		return t.assign(s, e, ind, rest)
	case *ast.IfStmt:
		if s.Init != nil {
			as, ok := s.Init.(*ast.AssignStmt)
			if !ok {
				fail("if-init")
			}
			// the variables of the init are scoped to the if statement: an inner declaration that shadows an outer variable
			// gets a Lean name of its own, and the outer binding is restored for what follows the statement
			t.shadowOK = true
			return t.assign(as, e, ind, func(e3 *env, ind3 string) string {
				t.shadowOK = false
				restore := func(e4 *env, ind4 string) string {
					e5 := e4.clone()
					if as.Tok == token.DEFINE {
						for _, l := range as.Lhs {
							n := namedOf(l)
							if n == "" || n == "_" {
								continue
							}
							delete(e5.facts, n)
							if ty, ok := e.vars[n]; ok {
								e5.vars[n] = ty
								if ln, ok := e.names[n]; ok {
									e5.names[n] = ln
								} else {
									delete(e5.names, n)
								}
							} else {
								delete(e5.vars, n)
								delete(e5.names, n)
							}
						}
					}
					return t.stmts(list[1:], e5, ind4, k)
				}
				return t.stmts([]ast.Stmt{&ast.IfStmt{Cond: s.Cond, Body: s.Body, Else: s.Else}}, e3, ind3, restore)
			})
		}
		// an `if` without else whose body only updates local state (no return, no call, no index): a join point instead of
		// duplicating everything that follows into both branches
		if s.Else == nil {
			if txt, ok := t.joinIf(s, e, ind, rest); ok {
				return txt
			}
		}
		thenF := func(e2 *env, ind string) string { return t.stmts(s.Body.List, e2, ind, rest) }
		elseF := func(e2 *env, ind string) string {
			if s.Else != nil {
				return t.stmts([]ast.Stmt{s.Else}, e2, ind, rest)
			}
			return rest(e2, ind)
		}
		return t.cond(disjuncts(s.Cond), e, ind, thenF, elseF)
	case *ast.SwitchStmt:
		if s.Init != nil {
			fail("switch init")
		}
		tagless := s.Tag == nil
		var tag val
		tagVar := ""
		if !tagless {
			if namedOf(s.Tag) == "true" {
				tagless = true
			} else {
				tag = t.expr(s.Tag, e)
				if len(t.pending) != from {
					fail("switch tag")
				}
				if tag.typ != "string" && !strings.HasPrefix(tag.typ, "int:") {
					fail("switch tag type")
				}
				if id, ok := s.Tag.(*ast.Ident); ok {
					if _, isVar := e.vars[id.Name]; isVar && tag.typ == "string" {
						tagVar = id.Name
					}
				}
			}
		}
		var dflt *ast.CaseClause
		var cases []*ast.CaseClause
		for _, c := range s.Body.List {
			cc := c.(*ast.CaseClause)
			for _, b := range cc.Body {
				if br, ok := b.(*ast.BranchStmt); ok {
					fail("branch statement %s in switch", br.Tok)
				}
			}
			if cc.List == nil {
				dflt = cc
			} else {
				cases = append(cases, cc)
			}
		}
		var build func(i int, e2 *env, ind string) string
		build = func(i int, e2 *env, ind string) string {
			if i == len(cases) {
				if dflt != nil {
					return t.stmts(dflt.Body, e2, ind, rest)
				}
				return rest(e2, ind)
			}
			cc := cases[i]
			bodyF := func(e3 *env, ind string) string {
				e4 := e3
				if tagVar != "" && len(cc.List) == 1 {
					if cs, ok := t.constString(cc.List[0], &env{vars: map[string]string{}, names: map[string]string{}}); ok {
						e4 = e3.clone()
						e4.facts[tagVar] = cs
					}
				}
				return t.stmts(cc.Body, e4, ind, rest)
			}
			nextF := func(e3 *env, ind string) string { return build(i+1, e3, ind) }
			if tagless {
				var ds []ast.Expr
				for _, ce := range cc.List {
					ds = append(ds, disjuncts(ce)...)
				}
				return t.cond(ds, e2, ind, bodyF, nextF)
			}
			var conds []string
			for _, ce := range cc.List {
				cv := t.expr(ce, e2)
				if len(t.pending) != from {
					fail("case expression")
				}
				conds = append(conds, "("+tag.txt+" == "+t.coerce(cv, tag.typ)+")")
			}
			c := strings.Join(conds, " || ")
			if len(conds) > 1 {
				c = "(" + c + ")"
			}
			return ind + "if " + c + " then\n" + bodyF(e2, ind+"  ") + "\n" + ind + "else\n" + nextF(e2, ind+"  ")
		}
		return build(0, e, ind)
	case *ast.RangeStmt:
		return t.rangeStmt(s, e, ind, rest)
	}
	fail("statement outside the subset (%T)", list[0])
	return ""
}


type joinFail struct{}

func hasReturn(list []ast.Stmt) bool {
	found := false
	for _, s := range list {
		ast.Inspect(s, func(n ast.Node) bool {
			switch n.(type) {
			case *ast.ReturnStmt, *ast.RangeStmt, *ast.ForStmt:
				found = true
			}
			return true
		})
	}
	return found
}

func (t *tr) joinIf(s *ast.IfStmt, e *env, ind string, rest cont) (out string, ok bool) {
	if hasReturn(s.Body.List) || e.isNil {
		return "", false
	}
	vars := assignedVars(s.Body.List, e)
	savedPending := len(t.pending)
	savedTmp := t.tmp
	defer func() {
		if r := recover(); r != nil {
			if _, isJ := r.(joinFail); isJ {
				t.pending = t.pending[:savedPending]
				t.tmp = savedTmp
				t.joining--
				out, ok = "", false
				return
			}
			t.joining--
			panic(r)
		}
	}()
	t.joining++
	c := t.expr(s.Cond, e)
	if len(t.pending) != savedPending {
		panic(joinFail{})
	}
	ct := t.coerce(c, "bool")
	if ct == "true" || ct == "false" {
		panic(joinFail{})
	}
	// which state the body changes: the assigned locals, and the object when a field or names entry is written
	mk := func(withObj bool) (string, string) {
		var names, types []string
		if withObj {
			names, types = append(names, "o"), append(types, t.obj)
		}
		for _, v := range vars {
			names = append(names, e.lean(v))
			types = append(types, leanTy(e.vars[v]))
		}
		if len(names) == 1 {
			return names[0], types[0]
		}
		return "(" + strings.Join(names, ", ") + ")", strings.Join(types, " × ")
	}
	probe := t.stmts(s.Body.List, e, ind+"    ", func(e2 *env, ind2 string) string { return ind2 + "?" })
	withObj := strings.Contains(probe, "let o :")
	if !withObj && len(vars) == 0 {
		panic(joinFail{})
	}
	tup, ty := mk(withObj)
	body := t.stmts(s.Body.List, e, ind+"    ", func(e2 *env, ind2 string) string { return ind2 + tup })
	t.joining--
	ea := e.clone()
	for _, v := range vars {
		delete(ea.facts, v)
	}
	return ind + "let " + tup + " : " + ty + " := (if " + ct + " then (\n" + body + "\n" + ind + "  ) else " + tup + ")\n" + rest(ea, ind), true
}

func disjuncts(x ast.Expr) []ast.Expr {
	if p, ok := x.(*ast.ParenExpr); ok {
		return disjuncts(p.X)
	}
	if b, ok := x.(*ast.BinaryExpr); ok && b.Op == token.LOR {
		return append(disjuncts(b.X), disjuncts(b.Y)...)
	}
	return []ast.Expr{x}
}

// cond: `if d1 || d2 || … then A else B` with Go's left-to-right short-circuit evaluation; the calls and index guards of
// each disjunct are evaluated only when the disjunct is
func (t *tr) cond(ds []ast.Expr, e *env, ind string, thenF, elseF cont) string {
	if len(ds) == 0 {
		return elseF(e, ind)
	}
	// static conditions (receiver == nil)
	from := len(t.pending)
	c := t.expr(ds[0], e)
	ct := t.coerce(c, "bool")
	if ct == "true" && len(t.pending) == from {
		return thenF(e, ind)
	}
	if ct == "false" && len(t.pending) == from {
		return t.cond(ds[1:], e, ind, thenF, elseF)
	}
	// group the following disjuncts that need no binding into one Lean condition
	if len(t.pending) == from {
		i := 1
		for i < len(ds) {
			n := len(t.pending)
			var nxt val
			ok := true
			func() {
				defer func() {
					if r := recover(); r != nil {
						if _, isNU := r.(notUnderstood); isNU {
							ok = false
							return
						}
						panic(r)
					}
				}()
				nxt = t.expr(ds[i], e)
			}()
			if !ok || len(t.pending) != n || nxt.txt == "true" || nxt.txt == "false" {
				t.pending = t.pending[:n]
				break
			}
			ct = ct + " || " + t.coerce(nxt, "bool")
			i++
		}
		if i > 1 {
			ct = "(" + ct + ")"
		}
		return ind + "if " + ct + " then\n" + thenF(e, ind+"  ") + "\n" + ind + "else\n" + t.cond(ds[i:], e, ind+"  ", thenF, elseF)
	}
	return t.flush(from, ind, func(ind string) string {
		return ind + "if " + ct + " then\n" + thenF(e, ind+"  ") + "\n" + ind + "else\n" + t.cond(ds[1:], e, ind+"  ", thenF, elseF)
	})
}

func (t *tr) freshName(e *env, n string) {
	if _, ok := e.vars[n]; ok {
		fail("declaration shadows %s", n)
	}
	if n == e.recv || n == "o" {
		fail("declaration shadows the receiver")
	}
	if _, ok := t.p.consts[n]; ok {
		fail("declaration shadows constant %s", n)
	}
	if _, ok := t.p.strConsts[n]; ok {
		fail("declaration shadows constant %s", n)
	}
}

func (t *tr) assign(s *ast.AssignStmt, e *env, ind string, rest cont) string {
	from := len(t.pending)
	shadow := t.shadowOK
	t.shadowOK = false
	// tuple := call
	if len(s.Lhs) == 2 && len(s.Rhs) == 1 {
		v := t.expr(s.Rhs[0], e)
		if !strings.HasPrefix(v.typ, "tuple:") {
			fail("two-value assignment")
		}
		tys := strings.Split(strings.TrimPrefix(v.typ, "tuple:"), ",")
		vs := strings.Split(v.txt, ",")
		e2 := e.clone()
		lets := ""
		for i, l := range s.Lhs {
			n := namedOf(l)
			if n == "" {
				fail("assignment target")
			}
			if n == "_" {
				continue
			}
			if strings.HasPrefix(tys[i], "obj:") {
				fail("pointer result bound to a variable")
			}
			if s.Tok == token.DEFINE {
				if _, exists := e.vars[n]; !exists {
					t.freshName(e, n)
				} else if shadow {
					t.shadowN++
					e2.names[n] = fmt.Sprintf("%s_%d", n, t.shadowN)
				} else if e.vars[n] != tys[i] {
					fail("redeclaration of %s", n)
				}
			} else if e.vars[n] != tys[i] {
				fail("assignment to %s", n)
			}
			e2.vars[n] = tys[i]
			delete(e2.facts, n)
			lets += "let " + e2.lean(n) + " : " + leanTy(tys[i]) + " := " + vs[i] + "\n"
		}
		return t.flush(from, ind, func(ind string) string {
			out := ""
			for _, l := range strings.Split(strings.TrimSuffix(lets, "\n"), "\n") {
				if l != "" {
					out += ind + l + "\n"
				}
			}
			return out + rest(e2, ind)
		})
	}
	if len(s.Lhs) != 1 || len(s.Rhs) != 1 || (s.Tok != token.DEFINE && s.Tok != token.ASSIGN) {
		fail("assignment form")
	}
	// receiver = NewX()
	if id, ok := s.Lhs[0].(*ast.Ident); ok && id.Name == e.recv && s.Tok == token.ASSIGN {
		c, ok := s.Rhs[0].(*ast.CallExpr)
		if !ok || len(c.Args) != 0 || namedOf(c.Fun) != "New"+e.rtyp {
			fail("assignment to the receiver")
		}
		t.ensure("New" + e.rtyp)
		e2 := e.clone()
		e2.isNil = false
		return ind + "let o : " + t.obj + " := " + t.ns + ".New" + e.rtyp + "\n" + rest(e2, ind)
	}
	// field / names assignment
	if se, ok := s.Lhs[0].(*ast.SelectorExpr); ok && s.Tok == token.ASSIGN {
		st, ok := t.objExpr(se.X, e)
		if !ok {
			fail("assignment target")
		}
		if e.isNil {
			panic(nilDeref{})
		}
		fd, _, ok := t.findField(st, se.Sel.Name)
		if !ok {
			fail("field %s", se.Sel.Name)
		}
		v := t.expr(s.Rhs[0], e)
		if fd.name == "Ver" && t.p.ver == 3 {
			txt := t.coerce(v, "int:"+fd.typ)
			return t.flush(from, ind, func(ind string) string {
				return ind + "let o : " + t.obj + " := { o with ver := " + txt + " }\n" + rest(e, ind)
			})
		}
		m, ok := t.metricCtor(fd.name)
		if !ok || !t.p.intTypes[fd.typ] {
			fail("assignment to field %s", fd.name)
		}
		txt := t.coerce(v, "int:"+fd.typ)
		return t.flush(from, ind, func(ind string) string {
			return ind + "let o : " + t.obj + " := o.set ." + m + " " + txt + "\n" + rest(e, ind)
		})
	}
	if ix, ok := s.Lhs[0].(*ast.IndexExpr); ok && s.Tok == token.ASSIGN {
		se, ok := ix.X.(*ast.SelectorExpr)
		if !ok {
			fail("index assignment")
		}
		st, ok := t.objExpr(se.X, e)
		if !ok || se.Sel.Name != "names" {
			fail("index assignment")
		}
		if e.isNil {
			panic(nilDeref{})
		}
		owner := t.namesOwner(st)
		if namedOf(s.Rhs[0]) != "true" {
			fail("names entry set to something else than true")
		}
		cs, ok := t.constString(ix.Index, e)
		if !ok {
			fail("names key is not known to be a metric name constant at this point")
		}
		m, ok := t.metricCtor(cs)
		if !ok || !t.ownMetrics(owner)[m] {
			fail("names key %q is not a metric of %s", cs, owner)
		}
		t.marks[levelOf[owner]+"|"+cs] = true
		return ind + "let o : " + t.obj + " := o.mark ." + m + "\n" + rest(e, ind)
	}
	n := namedOf(s.Lhs[0])
	if n == "" || n == "_" {
		fail("assignment target")
	}
	v := t.expr(s.Rhs[0], e)
	if strings.HasPrefix(v.typ, "tuple:") || strings.HasPrefix(v.typ, "obj:") {
		fail("assignment of %s", v.typ)
	}
	e2 := e.clone()
	delete(e2.facts, n)
	var ty string
	if s.Tok == token.DEFINE {
		if _, exists := e.vars[n]; exists && shadow {
			t.shadowN++
			e2.names[n] = fmt.Sprintf("%s_%d", n, t.shadowN)
		} else {
			t.freshName(e, n)
		}
		if v.typ == "num" || v.typ == "nil" {
			fail("untyped definition")
		}
		ty = v.typ
		e2.vars[n] = ty
		if cs, ok := t.constString(s.Rhs[0], e); ok && ty == "string" {
			e2.facts[n] = cs
		}
	} else {
		var ok bool
		ty, ok = e.vars[n]
		if !ok {
			fail("assignment to %s, which is not a local variable", n)
		}
	}
	txt := t.coerce(v, ty)
	return t.flush(from, ind, func(ind string) string {
		return ind + "let " + e2.lean(n) + " : " + leanTy(ty) + " := " + txt + "\n" + rest(e2, ind)
	})
}

// assigned: local variables (declared outside) assigned inside the statements
func assignedVars(list []ast.Stmt, e *env) []string {
	seen := map[string]bool{}
	var walk func(n ast.Node) bool
	walk = func(n ast.Node) bool {
		if as, ok := n.(*ast.AssignStmt); ok && as.Tok == token.ASSIGN {
			for _, l := range as.Lhs {
				if id, ok := l.(*ast.Ident); ok {
					if _, isVar := e.vars[id.Name]; isVar {
						seen[id.Name] = true
					}
				}
			}
		}
		if es, ok := n.(*ast.ExprStmt); ok {
			if c, ok := es.X.(*ast.CallExpr); ok {
				if se, ok := c.Fun.(*ast.SelectorExpr); ok && se.Sel.Name == "WriteString" {
					if id, ok := se.X.(*ast.Ident); ok {
						if _, isVar := e.vars[id.Name]; isVar {
							seen[id.Name] = true
						}
					}
				}
			}
		}
		return true
	}
	for _, s := range list {
		ast.Inspect(s, walk)
	}
	var res []string
	for n := range seen {
		res = append(res, n)
	}
	sort.Strings(res)
	return res
}

func (t *tr) rangeStmt(s *ast.RangeStmt, e *env, ind string, rest cont) string {
	if e.isNil {
		fail("loop on the nil-receiver path")
	}
	if s.Tok != token.DEFINE || namedOf(s.Key) != "_" || namedOf(s.Value) == "" || namedOf(s.Value) == "_" {
		fail("range form")
	}
	from := len(t.pending)
	xs := t.expr(s.X, e)
	if xs.typ != "strs" {
		fail("range over %s", xs.typ)
	}
	vn := namedOf(s.Value)
	t.freshName(e, vn)
	vars := assignedVars(s.Body.List, e)
	stNames := []string{"o"}
	stTypes := []string{t.obj}
	for _, v := range vars {
		stNames = append(stNames, e.lean(v))
		stTypes = append(stTypes, leanTy(e.vars[v]))
	}
	pat := "(" + strings.Join(stNames, ", ") + ")"
	if len(stNames) == 1 {
		pat = "o"
	}
	eb := e.clone()
	eb.vars[vn] = "string"
	for _, v := range vars {
		delete(eb.facts, v)
	}
	savedRet := t.ret
	outerRet := t.ret
	t.ret = func(tup string, isNil bool) string {
		// a return inside the loop body leaves the loop with the function's result
		return "some (Step.ret (" + strings.TrimPrefix(outerRet(tup, isNil), "some ") + "))"
	}
	body := t.stmts(s.Body.List, eb, ind+"      ", func(e2 *env, ind2 string) string {
		return ind2 + "some (Step.next " + pat + ")"
	})
	t.ret = savedRet
	ea := e.clone()
	for _, v := range vars {
		delete(ea.facts, v)
	}
	return t.flush(from, ind, func(ind string) string {
		return ind + "match forEach " + xs.txt + " " + pat + " (fun " + pat + " " + lv(vn) + " =>\n" + body + ") with\n" +
			ind + "  | none => none\n" +
			ind + "  | some (Step.ret r_) => " + savedRetRaw(savedRet) + "\n" +
			ind + "  | some (Step.next " + pat + ") =>\n" + rest(ea, ind+"    ")
	})
}

// inside a loop nested in the function body (depth 1) a `Step.ret r_` carries the complete result of the function
func savedRetRaw(_ func(string, bool) string) string { return "some r_" }

// ---------------------------------------------------------------------------------------------------------------------

var blockRe = regexp.MustCompile(`(?m)^-- @def (\S+)\n`)

func refBlocks(path string) map[string]map[string]string {
	res := map[string]map[string]string{}
	b, err := os.ReadFile(path)
	if err != nil {
		return res
	}
	txt := string(b)
	for _, ns := range []string{"D3", "D2"} {
		res[ns] = map[string]string{}
		start := strings.Index(txt, "namespace CvssVerif.Gen."+ns+"\n")
		end := strings.Index(txt, "end CvssVerif.Gen."+ns+"\n")
		if start < 0 || end < 0 {
			continue
		}
		sec := txt[start:end]
		locs := blockRe.FindAllStringSubmatchIndex(sec, -1)
		for i, l := range locs {
			name := sec[l[2]:l[3]]
			stop := len(sec)
			if i+1 < len(locs) {
				stop = locs[i+1][0]
			}
			res[ns][name] = strings.TrimRight(sec[l[1]:stop], "\n") + "\n"
		}
	}
	return res
}

// the functions translated, in dependency order (callees first)
var wanted = map[int][]string{
	3: {"GetVersion", "NewBase", "NewTemporal", "NewEnvironmental",
		"Base.GetError", "Temporal.GetError", "Environmental.GetError",
		"Base.Encode", "Temporal.Encode", "Environmental.Encode", "Base.String", "Temporal.String", "Environmental.String",
		"Base.decodeOne", "Temporal.decodeOne", "Environmental.decodeOne", "Base.Decode", "Temporal.Decode", "Environmental.Decode",
		"Base.BaseMetrics", "Temporal.BaseMetrics", "Environmental.BaseMetrics", "Environmental.TemporalMetrics"},
	2: {"NewBase", "NewTemporal", "NewEnvironmental", "Temporal.IsEmpty", "Environmental.IsEmpty",
		"Base.GetError", "Temporal.GetError", "Environmental.GetError",
		"Base.Encode", "Base.String", "Temporal.Encode", "Temporal.String", "Environmental.Encode", "Environmental.String",
		"Base.decodeOne", "Temporal.decodeOne", "Environmental.decodeOne", "Base.Decode", "Temporal.Decode", "Environmental.Decode",
		"Temporal.BaseMetrics", "Environmental.BaseMetrics", "Environmental.TemporalMetrics"},
}

func (t *tr) constructor(name string) string {
	fd := t.p.funcs[name]
	st := strings.TrimPrefix(name, "New")
	if fd == nil || fd.Recv != nil || len(fd.Type.Params.List) != 0 || len(fd.Body.List) != 1 {
		fail("constructor form")
	}
	rs, ok := fd.Body.List[0].(*ast.ReturnStmt)
	if !ok || len(rs.Results) != 1 {
		fail("constructor form")
	}
	ue, ok := rs.Results[0].(*ast.UnaryExpr)
	if !ok || ue.Op != token.AND {
		fail("constructor form")
	}
	cl, ok := ue.X.(*ast.CompositeLit)
	if !ok || namedOf(cl.Type) != st {
		fail("constructor form")
	}
	base := "(⟨" + map[int]string{3: "0, ", 2: ""}[t.p.ver] + "fun _ => 0, fun _ => false⟩ : " + t.obj + ")"
	namesInit := false
	var sets []string
	for _, el := range cl.Elts {
		kv, ok := el.(*ast.KeyValueExpr)
		if !ok {
			fail("constructor literal")
		}
		k := namedOf(kv.Key)
		switch {
		case k == "names":
			c2, ok := kv.Value.(*ast.CompositeLit)
			if !ok || len(c2.Elts) != 0 {
				fail("names initialiser")
			}
			if _, ok := c2.Type.(*ast.MapType); !ok {
				fail("names initialiser")
			}
			namesInit = true
		case k == "Ver" && t.p.ver == 3:
			c, ok := t.p.consts[namedOf(kv.Value)]
			if !ok {
				fail("Ver initialiser")
			}
			sets = append(sets, fmt.Sprintf("(fun o => { o with ver := %d })", c))
		default:
			isEmbed := false
			for _, fdl := range t.p.structs[st] {
				if fdl.embed == k {
					isEmbed = true
				}
			}
			if isEmbed {
				c, ok := kv.Value.(*ast.CallExpr)
				if !ok || namedOf(c.Fun) != "New"+k || len(c.Args) != 0 {
					fail("embedded initialiser")
				}
				t.ensure("New" + k)
				base = t.ns + ".New" + k
				continue
			}
			m, ok := t.metricCtor(k)
			if !ok {
				fail("constructor field %s", k)
			}
			c, ok := t.p.consts[namedOf(kv.Value)]
			if !ok {
				fail("initialiser of %s", k)
			}
			sets = append(sets, fmt.Sprintf("(fun o => o.set .%s %d)", m, c))
		}
	}
	if !namesInit {
		fail("names map not initialised")
	}
	// every embedded pointer must be initialised (a nil embedded object would make every promoted access panic)
	for _, fdl := range t.p.structs[st] {
		if fdl.embed != "" {
			found := false
			for _, el := range cl.Elts {
				if kv, ok := el.(*ast.KeyValueExpr); ok && namedOf(kv.Key) == fdl.embed {
					found = true
				}
			}
			if !found {
				fail("embedded %s not initialised", fdl.embed)
			}
		}
	}
	body := base
	for _, s := range sets {
		body = s + " (" + body + ")"
	}
	return fmt.Sprintf("@[gdec] def %s : %s :=\n  %s\n", name, t.obj, body)
}

func (t *tr) method(name string) []string {
	fd := t.p.funcs[name]
	if fd == nil {
		fail("no such function")
	}
	sig, ok := t.sigOf(name)
	if !ok {
		fail("signature outside the subset")
	}
	var outs []string
	modes := []bool{false}
	if !sig.plain {
		modes = []bool{false, true}
	}
	for _, isNil := range modes {
		e := &env{vars: map[string]string{}, names: map[string]string{}, facts: map[string]string{}}
		var ps []string
		if !sig.plain {
			f := fd.Recv.List[0]
			if len(f.Names) != 1 {
				fail("unnamed receiver")
			}
			e.recv = f.Names[0].Name
			e.rtyp = sig.recv
			e.isNil = isNil
			if !isNil {
				ps = append(ps, "(o : "+t.obj+")")
			}
		}
		i := 0
		for _, f := range fd.Type.Params.List {
			if len(f.Names) == 0 {
				fail("unnamed parameter")
			}
			for _, n := range f.Names {
				e.vars[n.Name] = sig.params[i]
				ps = append(ps, fmt.Sprintf("(%s : %s)", lv(n.Name), leanTy(sig.params[i])))
				i++
			}
		}
		t.cur = sig
		t.pending = nil
		t.tmp = 0
		plain := sig.plain
		t.ret = func(tup string, nilNow bool) string {
			if plain || nilNow {
				return "some " + tup
			}
			return "some (o, " + tup + ")"
		}
		// result type: with the object unless plain; on the nil path the object may come into being (recv = NewX())
		resTy := leanRes(sig.res)
		full := "Option (" + t.obj + " × " + paren(resTy) + ")"
		if plain {
			full = "Option " + paren(resTy)
		}
		dn := defName(name)
		if isNil {
			dn += "_nil"
			// a nil-receiver translation returns `Sum`-free: either no object (stayed nil) or an object: keep both shapes apart
			full = "Option (Option " + t.obj + " × " + paren(resTy) + ")"
			t.ret = func(tup string, nilNow bool) string {
				if nilNow {
					return "some (none, " + tup + ")"
				}
				return "some (some o, " + tup + ")"
			}
		}
		body := t.stmts(fd.Body.List, e, "  ", nil)
		outs = append(outs, fmt.Sprintf("@[gdec] def %s %s : %s :=\n%s\n", dn, strings.Join(ps, " "), full, body))
	}
	return outs
}

func paren(s string) string {
	if strings.Contains(s, "×") {
		return "(" + s + ")"
	}
	return s
}

// sentinelFacts: the package-level error variables of /repo/cvsserr and how each is initialised.  The translation reads
// `errs.Wrap(cvsserr.ErrX, …)` as the constructor `.x` of the model's `Err` and `errs.Is` as equality of constructors: that is sound when
// every sentinel is its own `errors.New(…)` value (two names for one value, or a sentinel that wraps another, would make errors.Is answer
// true across constructors).  Props/SrcDec.lean proves that the list is the model's vocabulary and that every entry is "new".
func sentinelFacts(dir string) string {
	type ent struct{ name, how, msg string }
	var ents []ent
	pkgs, err := parser.ParseDir(token.NewFileSet(), dir, buildOK(dir), 0)
	if err == nil {
		for _, pk := range pkgs {
			for _, f := range pk.Files {
				for _, d := range f.Decls {
					gd, ok := d.(*ast.GenDecl)
					if !ok || gd.Tok != token.VAR {
						continue
					}
					for _, sp := range gd.Specs {
						vs := sp.(*ast.ValueSpec)
						for i, n := range vs.Names {
							e := ent{name: n.Name, how: "other"}
							if len(vs.Values) == len(vs.Names) {
								if c, ok := vs.Values[i].(*ast.CallExpr); ok && len(c.Args) == 1 {
									if se, ok := c.Fun.(*ast.SelectorExpr); ok && namedOf(se.X) == "errors" && se.Sel.Name == "New" {
										if bl, ok := c.Args[0].(*ast.BasicLit); ok && bl.Kind == token.STRING {
											if m, err := strconv.Unquote(bl.Value); err == nil {
												e.how, e.msg = "new", m
											}
										}
									}
								}
							}
							ents = append(ents, e)
						}
					}
				}
			}
		}
	}
	sort.Slice(ents, func(i, j int) bool { return ents[i].name < ents[j].name })
	var l []string
	for _, e := range ents {
		l = append(l, fmt.Sprintf("(%q, %q, %s)", e.name, e.how, bytesLit(e.msg)))
	}
	return "namespace CvssVerif.Gen.Errs\nopen CvssVerif\n\n-- @def sentinels\n/-- the package-level variables of /repo/cvsserr: name, \"new\" when the initialiser is `errors.New(<string literal>)`, the message -/\n" +
		"def sentinels : List (String × String × Bytes) := [" + strings.Join(l, ",\n  ") + "]\n\nend CvssVerif.Gen.Errs\n"
}

func main() {
	if len(os.Args) != 3 && len(os.Args) != 4 {
		fmt.Fprintln(os.Stderr, "usage: decoders <repo> <out.lean> [reference.lean]")
		os.Exit(2)
	}
	repo, out := os.Args[1], os.Args[2]
	ref := map[string]map[string]string{}
	if len(os.Args) == 4 {
		ref = refBlocks(os.Args[3])
	}
	var b strings.Builder
	b.WriteString("/- GENERATED on every run by go/decoders from the source text of the constructors, Decode, decodeOne, GetError, Encode,\n" +
		"   String, IsEmpty and GetVersion of /repo/v3/metric and /repo/v2/metric — do not edit.  `none` is a run-time panic. -/\n" +
		"import CvssVerif.Basic.GoRt\nimport CvssVerif.Generated.Tables\nset_option linter.unusedVariables false\n\n")
	var nuList, problems []string
	total := 0
	fatal := false
	for _, pv := range []struct {
		ver int
		dir string
	}{{3, "v3/metric"}, {2, "v2/metric"}} {
		p := load(filepath.Join(repo, pv.dir), pv.ver)
		ns := fmt.Sprintf("D%d", pv.ver)
		t := &tr{p: p, ns: "Gen." + ns, tns: fmt.Sprintf("Gen.T%d", pv.ver), obj: fmt.Sprintf("Obj%d", pv.ver), sigs: map[string]fsig{}, marks: map[string]bool{},
			ctorOK: map[string]bool{}, badFns: map[string]string{}, blocks: map[string]string{}, doneFns: map[string]bool{}, active: map[string]bool{}}
		for _, n := range wanted[pv.ver] {
			func() {
				defer func() {
					if r := recover(); r != nil {
						if nu, ok := r.(notUnderstood); ok {
							if _, have := t.badFns[n]; !have {
								t.badFns[n] = nu.msg
							}
							return
						}
						panic(r)
					}
				}()
				t.ensure(n)
			}()
		}
		blocks := t.blocks
		var badNames []string
		for n := range t.badFns {
			badNames = append(badNames, n)
		}
		sort.Strings(badNames)
		pull := func(name string) {
			if _, have := blocks[name]; have {
				return
			}
			if txt, ok := ref[ns][name]; ok {
				blocks[name] = txt
			}
		}
		isWanted := map[string]bool{}
		for _, n := range wanted[pv.ver] {
			isWanted[n] = true
		}
		for _, n := range badNames {
			problems = append(problems, fmt.Sprintf("%s.%s: %s", ns, n, t.badFns[n]))
			if isWanted[n] {
				nuList = append(nuList, ns+"."+defName(n))
			}
		}
		// emission order: helpers translated on demand first (in the order they were completed), then the wanted functions in
		// dependency order; a wanted function that is not understood carries the reference text
		var ordered []string
		seen := map[string]bool{}
		add := func(dn string) {
			if !seen[dn] && blocks[dn] != "" {
				seen[dn] = true
				ordered = append(ordered, dn)
			}
		}
		for _, n := range wanted[pv.ver] {
			dn := defName(n)
			if _, isBad := t.badFns[n]; isBad {
				pull(dn)
				pull(dn + "_nil")
				if blocks[dn] == "" {
					fatal = true
				}
			}
		}
		wantedDn := map[string]bool{}
		for _, n := range wanted[pv.ver] {
			wantedDn[defName(n)] = true
			wantedDn[defName(n)+"_nil"] = true
		}
		for _, dn := range t.order {
			if !wantedDn[dn] {
				add(dn)
			}
		}
		for _, n := range wanted[pv.ver] {
			add(defName(n))
			add(defName(n) + "_nil")
		}
		fmt.Fprintf(&b, "namespace CvssVerif.Gen.%s\nopen CvssVerif CvssVerif.GoRt CvssVerif.V%d\n\n", ns, pv.ver)
		for _, n := range ordered {
			if blocks[n] == "" {
				continue
			}
			fmt.Fprintf(&b, "-- @def %s\n%s\n", n, blocks[n])
			total++
		}
		var ms []string
		for k := range t.marks {
			ms = append(ms, k)
		}
		sort.Strings(ms)
		var ml []string
		for _, k := range ms {
			parts := strings.SplitN(k, "|", 2)
			ml = append(ml, fmt.Sprintf("(Level.%s, %s)", parts[0], bytesLit(parts[1])))
		}
		fmt.Fprintf(&b, "-- @def markSites\n/-- every `x.names[k] = true` of the source: the struct (level) whose map is written and the metric name k is known to be\n    at that point; each must be the name of a metric of that level (proved in Proofs/Decoders.lean) -/\ndef markSites : List (Level × Bytes) := [%s]\n\n", strings.Join(ml, ", "))
		fmt.Fprintf(&b, "end CvssVerif.Gen.%s\n\n", ns)
	}
	b.WriteString(sentinelFacts(filepath.Join(repo, "cvsserr")))
	if !fatal {
		if err := os.WriteFile(out, []byte(b.String()), 0o644); err != nil {
			fmt.Fprintln(os.Stderr, err)
			os.Exit(1)
		}
	}
	sort.Strings(problems)
	for _, p := range problems {
		fmt.Println("problem:", p)
	}
	sort.Strings(nuList)
	fmt.Printf("not-understood: %s\n", strings.Join(nuList, " "))
	fmt.Printf("decoders: definitions=%d problems=%d written=%v\n", total, len(problems), !fatal)
}
