module verif/decoders

go 1.22
