// tables: regenerates lean/CvssVerif/Generated/Tables.lean from the *source text* of the per-metric types of
// /repo/v3/metric and /repo/v2/metric on every run (go/parser only).
//
// What is translated:
//   * the enumeration constants (`const ( A T = iota; B; C )` blocks over `type T int`),
//   * every package-level `var m = map[T]string{…}` and `map[T]float64{…}` literal (entries sorted by key: a Go map has
//     no order, duplicate constant keys do not compile; float values as the 64 bits strconv.ParseFloat gives),
//   * every function `func F(s string) T` and every method with a receiver of a named int type (GetXxx, String, Value,
//     IsUnknown, IsValid, IsDefined, IsChanged, …): the body is translated statement by statement into a Lean definition
//     over `Int` (metric values), `Bytes` (strings), `Nat` (the bits of a float64) and `Bool`.
// The subset: `return e`; `if [init;] cond {…} [else …]`; `if v, ok := M[k]; ok {…}`; `_, ok := M[k]`; `x := e`, `x = e`;
// `var x T`; `switch [tag] { case …: … default: … }` without fallthrough; `for k, v := range M { if s == v { return k } }`
// (a reverse look-up: translated to a first-match search, which is what the map iteration computes when the values of
// M are pairwise different — that side condition is emitted as an obligation and proved in Lean); ==, !=, &&, ||, !;
// calls of other translated functions and methods.  Anything else makes the function "not understood": it keeps the text
// of the reference translation (the translator's output on the pinned tree), is listed, and nothing is claimed about it.
//
// usage: tables <repo> <out.lean> [reference.lean]
package main

import (
	"fmt"
	"go/ast"
	"go/build"
	"go/parser"
	"go/token"
	"math"
	"os"
	"path/filepath"
	"regexp"
	"sort"
	"strconv"
	"strings"
)

type mapInfo struct {
	name string
	keyT string
	valT string // "string" | "float"
	keys []int64
	strs []string
	bits []uint64
}

type constInfo struct {
	typ string
	val int64
}

type pkgInfo struct {
	ver       int
	intTypes  map[string]bool
	consts    map[string]constInfo
	strConsts map[string]string
	maps      map[string]*mapInfo
	funcs     map[string]*ast.FuncDecl
	tainted   string // non-empty: some function of the package writes a map that may be a table
}

type notUnderstood struct{ msg string }

// buildOK: the file is part of the package as the compiler sees it here (no test file; its build constraints — //go:build lines and
// _GOOS / _GOARCH suffixes — are satisfied without extra tags, so verif_hooks.go is left out)
func buildOK(dir string) func(os.FileInfo) bool {
	return func(fi os.FileInfo) bool {
		if strings.HasSuffix(fi.Name(), "_test.go") {
			return false
		}
		ok, err := build.Default.MatchFile(dir, fi.Name())
		return err == nil && ok
	}
}

func fail(f string, a ...interface{}) { panic(notUnderstood{fmt.Sprintf(f, a...)}) }

func recvType(e ast.Expr) (string, bool) {
	switch t := e.(type) {
	case *ast.Ident:
		return t.Name, false
	case *ast.StarExpr:
		if id, ok := t.X.(*ast.Ident); ok {
			return id.Name, true
		}
	}
	return "?", false
}

func bytesLit(s string) string {
	b := []byte(s)
	parts := make([]string, len(b))
	for i, c := range b {
		parts[i] = strconv.Itoa(int(c))
	}
	return "([" + strings.Join(parts, ", ") + "] : Bytes)"
}

func load(dir string, ver int) *pkgInfo {
	fset := token.NewFileSet()
	pkgs, err := parser.ParseDir(fset, dir, buildOK(dir), 0)
	if err != nil {
		fmt.Fprintln(os.Stderr, "tables:", err)
		os.Exit(1)
	}
	p := &pkgInfo{ver: ver, intTypes: map[string]bool{}, consts: map[string]constInfo{}, strConsts: map[string]string{},
		maps: map[string]*mapInfo{}, funcs: map[string]*ast.FuncDecl{}}
	var files []*ast.File
	for _, pk := range pkgs {
		for _, f := range pk.Files {
			files = append(files, f)
		}
	}
	// pass 1: types, constants, functions
	for _, f := range files {
		for _, d := range f.Decls {
			switch x := d.(type) {
			case *ast.FuncDecl:
				name := x.Name.Name
				if x.Recv != nil && len(x.Recv.List) == 1 {
					rt, ptr := recvType(x.Recv.List[0].Type)
					if ptr {
						continue
					}
					name = rt + "." + name
				}
				p.funcs[name] = x
			case *ast.GenDecl:
				switch x.Tok {
				case token.TYPE:
					for _, sp := range x.Specs {
						ts := sp.(*ast.TypeSpec)
						if id, ok := ts.Type.(*ast.Ident); ok && id.Name == "int" {
							p.intTypes[ts.Name.Name] = true
						}
					}
				case token.CONST:
					iotaBlock := false
					typ := ""
					for i, sp := range x.Specs {
						vs := sp.(*ast.ValueSpec)
						if i == 0 && len(vs.Values) == 1 {
							if id, ok := vs.Values[0].(*ast.Ident); ok && id.Name == "iota" {
								iotaBlock = true
								if t, ok := vs.Type.(*ast.Ident); ok {
									typ = t.Name
								}
							}
						}
						if iotaBlock {
							if i > 0 && len(vs.Values) != 0 {
								iotaBlock = false // an explicit value inside the block: not a plain enumeration
								continue
							}
							for _, n := range vs.Names {
								p.consts[n.Name] = constInfo{typ, int64(i)}
							}
							continue
						}
						for j, n := range vs.Names {
							if j < len(vs.Values) {
								if bl, ok := vs.Values[j].(*ast.BasicLit); ok && bl.Kind == token.STRING {
									if s, err := strconv.Unquote(bl.Value); err == nil {
										p.strConsts[n.Name] = s
									}
								}
							}
						}
					}
				}
			}
		}
	}
	// pass 2: map literals
	for _, f := range files {
		for _, d := range f.Decls {
			gd, ok := d.(*ast.GenDecl)
			if !ok || gd.Tok != token.VAR {
				continue
			}
			for _, sp := range gd.Specs {
				vs := sp.(*ast.ValueSpec)
				if len(vs.Names) != 1 || len(vs.Values) != 1 {
					continue
				}
				cl, ok := vs.Values[0].(*ast.CompositeLit)
				if !ok {
					continue
				}
				mt, ok := cl.Type.(*ast.MapType)
				if !ok {
					continue
				}
				kt, ok1 := mt.Key.(*ast.Ident)
				vt, ok2 := mt.Value.(*ast.Ident)
				if !ok1 || !ok2 || !p.intTypes[kt.Name] || (vt.Name != "string" && vt.Name != "float64") {
					continue
				}
				mi := &mapInfo{name: vs.Names[0].Name, keyT: kt.Name, valT: map[string]string{"string": "string", "float64": "float"}[vt.Name]}
				good := true
				type ent struct {
					k int64
					s string
					b uint64
				}
				var ents []ent
				for _, el := range cl.Elts {
					kv, ok := el.(*ast.KeyValueExpr)
					if !ok {
						good = false
						break
					}
					kid, ok := kv.Key.(*ast.Ident)
					if !ok {
						good = false
						break
					}
					ci, ok := p.consts[kid.Name]
					if !ok || ci.typ != kt.Name {
						good = false
						break
					}
					e := ent{k: ci.val}
					switch v := kv.Value.(type) {
					case *ast.BasicLit:
						if mi.valT == "string" && v.Kind == token.STRING {
							s, err := strconv.Unquote(v.Value)
							if err != nil {
								good = false
							}
							e.s = s
						} else if mi.valT == "float" && (v.Kind == token.FLOAT || v.Kind == token.INT) {
							fv, err := strconv.ParseFloat(v.Value, 64)
							if err != nil {
								good = false
							}
							e.b = math.Float64bits(fv)
						} else {
							good = false
						}
					case *ast.Ident:
						if s, ok := p.strConsts[v.Name]; ok && mi.valT == "string" {
							e.s = s
						} else {
							good = false
						}
					default:
						good = false
					}
					ents = append(ents, e)
				}
				if !good {
					continue
				}
				sort.SliceStable(ents, func(i, j int) bool { return ents[i].k < ents[j].k })
				for _, e := range ents {
					mi.keys = append(mi.keys, e.k)
					mi.strs = append(mi.strs, e.s)
					mi.bits = append(mi.bits, e.b)
				}
				p.maps[mi.name] = mi
			}
		}
	}
	// a table is only its literal if nothing in the package writes it: an `x[k] = v`, `x[k] op= v`, `delete(x, k)` with x an identifier
	// (a package-level table, or a local that may alias one — the `names` maps of the object types are reached through a selector and
	// are not concerned), or an assignment to a package-level table, anywhere in any function (init included), makes every table of
	// the package untrustworthy: nothing that reads a table is translated then
	for _, f := range files {
		ast.Inspect(f, func(n ast.Node) bool {
			switch x := n.(type) {
			case *ast.AssignStmt:
				for _, l := range x.Lhs {
					if ix, ok := l.(*ast.IndexExpr); ok {
						if id, ok := ix.X.(*ast.Ident); ok {
							p.tainted = "the package writes a map through the identifier " + id.Name
						}
					}
					if id, ok := l.(*ast.Ident); ok && x.Tok != token.DEFINE {
						if _, isTable := p.maps[id.Name]; isTable {
							p.tainted = "the package assigns to the table " + id.Name
						}
					}
				}
			case *ast.IncDecStmt:
				if ix, ok := x.X.(*ast.IndexExpr); ok {
					if id, ok := ix.X.(*ast.Ident); ok {
						p.tainted = "the package writes a map through the identifier " + id.Name
					}
				}
			case *ast.CallExpr:
				if id, ok := x.Fun.(*ast.Ident); ok && (id.Name == "delete" || id.Name == "clear") && len(x.Args) >= 1 {
					if a, ok := x.Args[0].(*ast.Ident); ok {
						p.tainted = "the package calls " + id.Name + " on the identifier " + a.Name
					}
				}
				// a table handed to any function (maps.Copy, a helper that fills it, ...) may be written there
				if id, ok := x.Fun.(*ast.Ident); !ok || id.Name != "len" {
					for _, a := range x.Args {
						if aid, ok := a.(*ast.Ident); ok {
							if _, isTable := p.maps[aid.Name]; isTable {
								p.tainted = "the package passes the table " + aid.Name + " to a function"
							}
						}
					}
				}
			}
			return true
		})
	}
	return p
}

// ---------------------------------------------------------------------------------------------------------------------

type val struct {
	txt string
	typ string // "int" "string" "float" "bool" "map:string" "map:float" "num"
	lit string // for "num": the literal text
}

type tr struct {
	p      *pkgInfo
	done   map[string]string // function -> def text
	sigs   map[string]fsig
	bad    map[string]string
	active map[string]bool
	order  []string
	rev    map[string]bool // maps used in a reverse look-up
	res    string          // result type of the function being translated
}

type fsig struct {
	params []string // types, receiver first
	res    string
}

type env struct {
	vars map[string]string // Go name -> type
}

func (e *env) clone() *env {
	n := &env{vars: map[string]string{}}
	for k, v := range e.vars {
		n.vars[k] = v
	}
	return n
}

var leanType = map[string]string{"int": "Int", "string": "Bytes", "float": "Nat", "bool": "Bool", "map:string": "List (Int × Bytes)", "map:float": "List (Int × Nat)"}

func (t *tr) goType(e ast.Expr) string {
	switch x := e.(type) {
	case *ast.Ident:
		switch x.Name {
		case "string":
			return "string"
		case "float64":
			return "float"
		case "bool":
			return "bool"
		}
		if t.p.intTypes[x.Name] {
			return "int"
		}
	case *ast.MapType:
		kt, ok1 := x.Key.(*ast.Ident)
		vt, ok2 := x.Value.(*ast.Ident)
		if ok1 && ok2 && t.p.intTypes[kt.Name] {
			if vt.Name == "string" {
				return "map:string"
			}
			if vt.Name == "float64" {
				return "map:float"
			}
		}
	}
	fail("type outside the subset")
	return ""
}

func defName(n string) string { return strings.ReplaceAll(n, ".", "_") }
func lv(n string) string      { return n + "_" }

func zero(typ string) string {
	switch typ {
	case "int":
		return "(0 : Int)"
	case "string":
		return "([] : Bytes)"
	case "float":
		return "(0x0000000000000000 : Nat)"
	case "bool":
		return "false"
	case "map:string":
		return "([] : List (Int × Bytes))"
	case "map:float":
		return "([] : List (Int × Nat))"
	}
	fail("no zero value")
	return ""
}

func (t *tr) coerce(v val, typ string) string {
	if v.typ == typ {
		return v.txt
	}
	if v.typ == "num" {
		switch typ {
		case "float":
			f, err := strconv.ParseFloat(v.lit, 64)
			if err != nil {
				fail("literal %s", v.lit)
			}
			return fmt.Sprintf("(0x%016X : Nat)", math.Float64bits(f))
		case "int":
			n, err := strconv.ParseInt(v.lit, 0, 64)
			if err != nil {
				fail("literal %s", v.lit)
			}
			return fmt.Sprintf("(%d : Int)", n)
		}
	}
	fail("type mismatch %s vs %s", v.typ, typ)
	return ""
}

func (t *tr) expr(x ast.Expr, e *env) val {
	switch v := x.(type) {
	case *ast.ParenExpr:
		return t.expr(v.X, e)
	case *ast.BasicLit:
		switch v.Kind {
		case token.STRING:
			s, err := strconv.Unquote(v.Value)
			if err != nil {
				fail("string literal")
			}
			return val{txt: bytesLit(s), typ: "string"}
		case token.INT, token.FLOAT:
			return val{typ: "num", lit: v.Value}
		}
		fail("literal kind")
	case *ast.Ident:
		if v.Name == "true" || v.Name == "false" {
			return val{txt: v.Name, typ: "bool"}
		}
		if ty, ok := e.vars[v.Name]; ok {
			return val{txt: lv(v.Name), typ: ty}
		}
		if ci, ok := t.p.consts[v.Name]; ok {
			return val{txt: fmt.Sprintf("(%d : Int)", ci.val), typ: "int"}
		}
		if s, ok := t.p.strConsts[v.Name]; ok {
			return val{txt: bytesLit(s), typ: "string"}
		}
		if mi, ok := t.p.maps[v.Name]; ok {
			if t.p.tainted != "" {
				fail("reads the table %s, but %s", v.Name, t.p.tainted)
			}
			return val{txt: "tbl_" + mi.name, typ: "map:" + mi.valT}
		}
		fail("identifier %s", v.Name)
	case *ast.UnaryExpr:
		if v.Op == token.NOT {
			a := t.expr(v.X, e)
			return val{txt: "(!" + t.coerce(a, "bool") + ")", typ: "bool"}
		}
		fail("unary %s", v.Op)
	case *ast.BinaryExpr:
		switch v.Op {
		case token.LAND, token.LOR:
			a, b := t.expr(v.X, e), t.expr(v.Y, e)
			op := map[token.Token]string{token.LAND: "&&", token.LOR: "||"}[v.Op]
			return val{txt: "(" + t.coerce(a, "bool") + " " + op + " " + t.coerce(b, "bool") + ")", typ: "bool"}
		case token.EQL, token.NEQ:
			a, b := t.expr(v.X, e), t.expr(v.Y, e)
			ty := a.typ
			if ty == "num" {
				ty = b.typ
			}
			if ty != "int" && ty != "string" && ty != "bool" {
				fail("comparison of %s", ty)
			}
			op := map[token.Token]string{token.EQL: "==", token.NEQ: "!="}[v.Op]
			return val{txt: "(" + t.coerce(a, ty) + " " + op + " " + t.coerce(b, ty) + ")", typ: "bool"}
		}
		fail("operator %s", v.Op)
	case *ast.IndexExpr:
		m := t.expr(v.X, e)
		if !strings.HasPrefix(m.typ, "map:") {
			fail("index of non-map")
		}
		k := t.expr(v.Index, e)
		vt := strings.TrimPrefix(m.typ, "map:")
		return val{txt: "(mapGetD " + m.txt + " " + t.coerce(k, "int") + " " + zero(vt) + ")", typ: vt}
	case *ast.CallExpr:
		var name string
		var args []val
		switch f := v.Fun.(type) {
		case *ast.Ident:
			name = f.Name
		case *ast.SelectorExpr:
			// method on a value of a named int type: find the method by the static type of the receiver expression
			rt := t.staticType(f.X, e)
			if rt == "" {
				fail("receiver of %s", f.Sel.Name)
			}
			name = rt + "." + f.Sel.Name
			args = append(args, t.expr(f.X, e))
		default:
			fail("call")
		}
		for _, a := range v.Args {
			args = append(args, t.expr(a, e))
		}
		sig := t.function(name)
		if len(sig.params) != len(args) {
			fail("arity of %s", name)
		}
		s := "(" + defName(name)
		for i, a := range args {
			s += " " + t.coerce(a, sig.params[i])
		}
		return val{txt: s + ")", typ: sig.res}
	}
	fail("expression outside the subset")
	return val{}
}

// the named int type of an expression (needed to find a method): parameters and constants only
func (t *tr) staticType(x ast.Expr, e *env) string {
	switch v := x.(type) {
	case *ast.ParenExpr:
		return t.staticType(v.X, e)
	case *ast.Ident:
		if nt, ok := e.vars["type:"+v.Name]; ok {
			return nt
		}
		if ci, ok := t.p.consts[v.Name]; ok {
			return ci.typ
		}
	}
	return ""
}

func namedOf(e ast.Expr) string {
	if id, ok := e.(*ast.Ident); ok {
		return id.Name
	}
	return ""
}

// function translates (once) the named function and returns its signature
func (t *tr) function(name string) fsig {
	if s, ok := t.sigs[name]; ok {
		if _, bad := t.bad[name]; bad {
			fail("calls %s, which is not understood", name)
		}
		return s
	}
	if msg, bad := t.bad[name]; bad {
		fail("calls %s, which is not understood (%s)", name, msg)
	}
	fd, ok := t.p.funcs[name]
	if !ok {
		fail("unknown function %s", name)
	}
	if t.active[name] {
		fail("recursion through %s", name)
	}
	t.active[name] = true
	defer delete(t.active, name)
	var sig fsig
	var text string
	func() {
		defer func() {
			if r := recover(); r != nil {
				if nu, ok := r.(notUnderstood); ok {
					t.bad[name] = nu.msg
					return
				}
				panic(r)
			}
		}()
		e := &env{vars: map[string]string{}}
		var ps []string
		if fd.Recv != nil {
			f := fd.Recv.List[0]
			ty := t.goType(f.Type)
			sig.params = append(sig.params, ty)
			rn := "recv"
			if len(f.Names) == 1 {
				rn = f.Names[0].Name
			}
			e.vars[rn] = ty
			e.vars["type:"+rn] = namedOf(f.Type)
			ps = append(ps, fmt.Sprintf("(%s : %s)", lv(rn), leanType[ty]))
		}
		for _, f := range fd.Type.Params.List {
			ty := t.goType(f.Type)
			if len(f.Names) == 0 {
				fail("unnamed parameter")
			}
			for _, n := range f.Names {
				sig.params = append(sig.params, ty)
				e.vars[n.Name] = ty
				if ty == "int" {
					e.vars["type:"+n.Name] = namedOf(f.Type)
				}
				ps = append(ps, fmt.Sprintf("(%s : %s)", lv(n.Name), leanType[ty]))
			}
		}
		if fd.Type.Results == nil || len(fd.Type.Results.List) != 1 || len(fd.Type.Results.List[0].Names) > 1 {
			fail("result list")
		}
		if len(fd.Type.Results.List[0].Names) == 1 {
			fail("named result")
		}
		sig.res = t.goType(fd.Type.Results.List[0].Type)
		saved := t.res
		t.res = sig.res
		body := t.stmts(fd.Body.List, e, "  ", nil)
		t.res = saved
		text = fmt.Sprintf("@[gtab] def %s %s : %s :=\n%s\n", defName(name), strings.Join(ps, " "), leanType[sig.res], body)
	}()
	if msg, bad := t.bad[name]; bad {
		fail("calls %s, which is not understood (%s)", name, msg)
	}
	t.sigs[name] = sig
	t.done[name] = text
	t.order = append(t.order, name)
	return sig
}

type cont func(e *env, ind string) string

func (t *tr) stmts(list []ast.Stmt, e *env, ind string, k cont) string {
	if len(list) == 0 {
		if k == nil {
			fail("control reaches the end of the function")
		}
		return k(e, ind)
	}
	rest := func(e2 *env, ind2 string) string { return t.stmts(list[1:], e2, ind2, k) }
	switch s := list[0].(type) {
	case *ast.ReturnStmt:
		if len(s.Results) != 1 {
			fail("return arity")
		}
		return ind + t.coerce(t.expr(s.Results[0], e), t.res)
	case *ast.BlockStmt:
		return t.stmts(s.List, e, ind, rest)
	case *ast.DeclStmt:
		gd, ok := s.Decl.(*ast.GenDecl)
		if !ok || gd.Tok != token.VAR || len(gd.Specs) != 1 {
			fail("declaration")
		}
		vs := gd.Specs[0].(*ast.ValueSpec)
		if len(vs.Names) != 1 || vs.Type == nil || len(vs.Values) > 1 {
			fail("declaration form")
		}
		ty := t.goType(vs.Type)
		n := vs.Names[0].Name
		t.fresh(e, n)
		init := zero(ty)
		if len(vs.Values) == 1 {
			init = t.coerce(t.expr(vs.Values[0], e), ty)
		}
		e2 := e.clone()
		e2.vars[n] = ty
		if ty == "int" {
			e2.vars["type:"+n] = namedOf(vs.Type)
		}
		return ind + "let " + lv(n) + " : " + leanType[ty] + " := " + init + "\n" + rest(e2, ind)
	case *ast.AssignStmt:
		return t.assign(s, e, ind, rest)
	case *ast.IfStmt:
		e2 := e
		pre := ""
		// `if v, ok := M[k]; ok { A } [else B]`
		if as, ok := s.Init.(*ast.AssignStmt); ok && as.Tok == token.DEFINE && len(as.Lhs) == 2 && len(as.Rhs) == 1 {
			ix, isIx := as.Rhs[0].(*ast.IndexExpr)
			okName := namedOf(as.Lhs[1])
			vName := namedOf(as.Lhs[0])
			if isIx && okName != "" && okName != "_" && namedOf(s.Cond) == okName && vName != "" {
				m := t.expr(ix.X, e)
				if !strings.HasPrefix(m.typ, "map:") {
					fail("comma-ok on non-map")
				}
				vt := strings.TrimPrefix(m.typ, "map:")
				key := t.coerce(t.expr(ix.Index, e), "int")
				eb := e.clone()
				pat := "_"
				if vName != "_" {
					t.fresh(e, vName)
					eb.vars[vName] = vt
					pat = lv(vName)
				}
				t.fresh(e, okName)
				eb.vars[okName] = "bool"
				thenTxt := t.stmts(s.Body.List, eb, ind+"    ", rest)
				// in the else branch and after the if, `ok` is false and `v` the zero value; they are scoped to the if
				var elseTxt string
				if s.Else != nil {
					ee := e.clone()
					ee.vars[okName] = "bool"
					if vName != "_" {
						ee.vars[vName] = vt
					}
					elseTxt = ind + "    let " + lv(okName) + " : Bool := false\n"
					if vName != "_" {
						elseTxt += ind + "    let " + lv(vName) + " : " + leanType[vt] + " := " + zero(vt) + "\n"
					}
					elseTxt += t.stmts([]ast.Stmt{s.Else}, ee, ind+"    ", rest)
				} else {
					elseTxt = rest(e, ind+"    ")
				}
				okLet := ind + "    let " + lv(okName) + " : Bool := true\n"
				return ind + "match mapGet " + m.txt + " " + key + " with\n" + ind + "  | some " + pat + " =>\n" + okLet + thenTxt + "\n" + ind + "  | none =>\n" + elseTxt
			}
		}
		if s.Init != nil {
			as, ok := s.Init.(*ast.AssignStmt)
			if !ok {
				fail("if-init")
			}
			// translate the init as a statement in front (its variables must not shadow anything)
			return t.assign(as, e, ind, func(e3 *env, ind3 string) string {
				return t.stmts(append([]ast.Stmt{&ast.IfStmt{Cond: s.Cond, Body: s.Body, Else: s.Else}}, list[1:]...), e3, ind3, k)
			})
		}
		c := t.coerce(t.expr(s.Cond, e2), "bool")
		thenTxt := t.stmts(s.Body.List, e2, ind+"  ", rest)
		var elseTxt string
		if s.Else != nil {
			elseTxt = t.stmts([]ast.Stmt{s.Else}, e2, ind+"  ", rest)
		} else {
			elseTxt = rest(e2, ind+"  ")
		}
		return pre + ind + "if " + c + " then\n" + thenTxt + "\n" + ind + "else\n" + elseTxt
	case *ast.SwitchStmt:
		if s.Init != nil {
			fail("switch init")
		}
		tagTxt, tagTy := "", ""
		tagless := s.Tag == nil
		if !tagless {
			tv := t.expr(s.Tag, e)
			if tv.typ == "bool" && tv.txt == "true" {
				tagless = true
			} else {
				if tv.typ != "int" && tv.typ != "string" {
					fail("switch tag type")
				}
				tagTxt, tagTy = tv.txt, tv.typ
			}
		}
		var dflt *ast.CaseClause
		var cases []*ast.CaseClause
		for _, c := range s.Body.List {
			cc := c.(*ast.CaseClause)
			for _, b := range cc.Body {
				if br, ok := b.(*ast.BranchStmt); ok {
					fail("branch statement %s in switch", br.Tok)
				}
			}
			if cc.List == nil {
				dflt = cc
			} else {
				cases = append(cases, cc)
			}
		}
		var build func(i int, ind string) string
		build = func(i int, ind string) string {
			if i == len(cases) {
				if dflt != nil {
					return t.stmts(dflt.Body, e, ind, rest)
				}
				return rest(e, ind)
			}
			var conds []string
			for _, ce := range cases[i].List {
				cv := t.expr(ce, e)
				if tagless {
					conds = append(conds, t.coerce(cv, "bool"))
				} else {
					conds = append(conds, "("+tagTxt+" == "+t.coerce(cv, tagTy)+")")
				}
			}
			c := strings.Join(conds, " || ")
			if len(conds) > 1 {
				c = "(" + c + ")"
			}
			return ind + "if " + c + " then\n" + t.stmts(cases[i].Body, e, ind+"  ", rest) + "\n" + ind + "else\n" + build(i+1, ind+"  ")
		}
		return build(0, ind)
	case *ast.RangeStmt:
		// for k, v := range M { if s == v { return k } }
		m := t.expr(s.X, e)
		if m.typ != "map:string" || !strings.HasPrefix(m.txt, "tbl_") {
			fail("range over something else than a package-level code table")
		}
		kn, vn := namedOf(s.Key), namedOf(s.Value)
		if kn == "" || vn == "" || kn == "_" || vn == "_" || s.Tok != token.DEFINE || len(s.Body.List) != 1 {
			fail("range form")
		}
		is, ok := s.Body.List[0].(*ast.IfStmt)
		if !ok || is.Init != nil || is.Else != nil || len(is.Body.List) != 1 {
			fail("range body")
		}
		be, ok := is.Cond.(*ast.BinaryExpr)
		if !ok || be.Op != token.EQL {
			fail("range condition")
		}
		var other ast.Expr
		if namedOf(be.X) == vn {
			other = be.Y
		} else if namedOf(be.Y) == vn {
			other = be.X
		} else {
			fail("range condition does not compare the value")
		}
		if namedOf(other) == kn || namedOf(other) == vn {
			fail("range condition")
		}
		ret, ok := is.Body.List[0].(*ast.ReturnStmt)
		if !ok || len(ret.Results) != 1 || namedOf(ret.Results[0]) != kn || t.res != "int" {
			fail("range body does not return the key")
		}
		t.fresh(e, kn)
		t.fresh(e, vn)
		needle := t.coerce(t.expr(other, e), "string")
		t.rev[strings.TrimPrefix(m.txt, "tbl_")] = true
		return ind + "match mapRev " + m.txt + " " + needle + " with\n" + ind + "  | some " + lv(kn) + " => " + lv(kn) + "\n" + ind + "  | none =>\n" + rest(e, ind+"    ")
	}
	fail("statement outside the subset (%T)", list[0])
	return ""
}

func (t *tr) fresh(e *env, n string) {
	if _, ok := e.vars[n]; ok {
		fail("declaration shadows %s", n)
	}
	if _, ok := t.p.consts[n]; ok {
		fail("declaration shadows constant %s", n)
	}
	if _, ok := t.p.maps[n]; ok {
		fail("declaration shadows table %s", n)
	}
	if _, ok := t.p.strConsts[n]; ok {
		fail("declaration shadows constant %s", n)
	}
}

func (t *tr) assign(s *ast.AssignStmt, e *env, ind string, rest cont) string {
	// `_, ok := M[k]` / `v, ok := M[k]`
	if len(s.Lhs) == 2 && len(s.Rhs) == 1 {
		ix, isIx := s.Rhs[0].(*ast.IndexExpr)
		if !isIx || s.Tok != token.DEFINE {
			fail("two-value assignment")
		}
		m := t.expr(ix.X, e)
		if !strings.HasPrefix(m.typ, "map:") {
			fail("comma-ok on non-map")
		}
		vt := strings.TrimPrefix(m.typ, "map:")
		key := t.coerce(t.expr(ix.Index, e), "int")
		vn, on := namedOf(s.Lhs[0]), namedOf(s.Lhs[1])
		if vn == "" || on == "" {
			fail("assignment targets")
		}
		e2 := e.clone()
		out := ""
		if vn != "_" {
			t.fresh(e, vn)
			e2.vars[vn] = vt
			out += ind + "let " + lv(vn) + " : " + leanType[vt] + " := mapGetD " + m.txt + " " + key + " " + zero(vt) + "\n"
		}
		if on != "_" {
			t.fresh(e, on)
			e2.vars[on] = "bool"
			out += ind + "let " + lv(on) + " : Bool := mapMem " + m.txt + " " + key + "\n"
		}
		return out + rest(e2, ind)
	}
	if len(s.Lhs) != 1 || len(s.Rhs) != 1 {
		fail("assignment arity")
	}
	n := namedOf(s.Lhs[0])
	if n == "" || n == "_" {
		fail("assignment target")
	}
	v := t.expr(s.Rhs[0], e)
	e2 := e.clone()
	switch s.Tok {
	case token.DEFINE:
		t.fresh(e, n)
		if v.typ == "num" {
			fail("untyped constant definition")
		}
		e2.vars[n] = v.typ
		if v.typ == "int" {
			// the named type of the new variable: that of the right-hand side when it is evident
			if c, ok := s.Rhs[0].(*ast.CallExpr); ok {
				_ = c
			}
			if nt := t.staticType(s.Rhs[0], e); nt != "" {
				e2.vars["type:"+n] = nt
			}
		}
		return ind + "let " + lv(n) + " : " + leanType[v.typ] + " := " + v.txt + "\n" + rest(e2, ind)
	case token.ASSIGN:
		ty, ok := e.vars[n]
		if !ok {
			fail("assignment to %s, which is not a local variable", n)
		}
		return ind + "let " + lv(n) + " : " + leanType[ty] + " := " + t.coerce(v, ty) + "\n" + rest(e2, ind)
	}
	fail("assignment operator %s", s.Tok)
	return ""
}

// ---------------------------------------------------------------------------------------------------------------------

// which functions are translated: plain functions string -> named int, and every method on a named int type
func (p *pkgInfo) wanted() []string {
	var names []string
	for n, fd := range p.funcs {
		if fd.Recv != nil {
			rt, _ := recvType(fd.Recv.List[0].Type)
			if p.intTypes[rt] {
				names = append(names, n)
			}
			continue
		}
		if fd.Type.Params != nil && len(fd.Type.Params.List) == 1 && len(fd.Type.Params.List[0].Names) == 1 &&
			namedOf(fd.Type.Params.List[0].Type) == "string" && fd.Type.Results != nil && len(fd.Type.Results.List) == 1 &&
			p.intTypes[namedOf(fd.Type.Results.List[0].Type)] {
			names = append(names, n)
		}
	}
	sort.Strings(names)
	return names
}

var blockRe = regexp.MustCompile(`(?m)^-- @def (\S+)\n`)

// reference blocks: namespace -> name -> text
func refBlocks(path string) map[string]map[string]string {
	res := map[string]map[string]string{}
	b, err := os.ReadFile(path)
	if err != nil {
		return res
	}
	txt := string(b)
	for _, ns := range []string{"T3", "T2"} {
		res[ns] = map[string]string{}
		start := strings.Index(txt, "namespace CvssVerif.Gen."+ns+"\n")
		end := strings.Index(txt, "end CvssVerif.Gen."+ns+"\n")
		if start < 0 || end < 0 {
			continue
		}
		sec := txt[start:end]
		locs := blockRe.FindAllStringSubmatchIndex(sec, -1)
		for i, l := range locs {
			name := sec[l[2]:l[3]]
			stop := len(sec)
			if i+1 < len(locs) {
				stop = locs[i+1][0]
			}
			res[ns][name] = strings.TrimRight(sec[l[1]:stop], "\n") + "\n"
		}
	}
	return res
}

var identRe = regexp.MustCompile(`[A-Za-z_][A-Za-z0-9_]*`)

func main() {
	if len(os.Args) != 3 && len(os.Args) != 4 {
		fmt.Fprintln(os.Stderr, "usage: tables <repo> <out.lean> [reference.lean]")
		os.Exit(2)
	}
	repo, out := os.Args[1], os.Args[2]
	ref := map[string]map[string]string{}
	if len(os.Args) == 4 {
		ref = refBlocks(os.Args[3])
	}
	var b strings.Builder
	b.WriteString("/- GENERATED on every run by go/tables from the source text of the per-metric types of /repo/v3/metric and\n" +
		"   /repo/v2/metric — do not edit.  Tables are the map literals (sorted by key), float values are the bits of the\n" +
		"   correctly rounded literal, functions are the statement-by-statement translation of the Go bodies. -/\n" +
		"import CvssVerif.Basic.GoMap\nset_option linter.unusedVariables false\n\n")
	var nuList, problems []string
	total := 0
	fatal := false
	for _, pv := range []struct {
		ver int
		dir string
	}{{3, "v3/metric"}, {2, "v2/metric"}} {
		p := load(filepath.Join(repo, pv.dir), pv.ver)
		ns := fmt.Sprintf("T%d", pv.ver)
		t := &tr{p: p, done: map[string]string{}, sigs: map[string]fsig{}, bad: map[string]string{}, active: map[string]bool{}, rev: map[string]bool{}}
		for _, n := range p.wanted() {
			func() {
				defer func() {
					if r := recover(); r != nil {
						if nu, ok := r.(notUnderstood); ok {
							if _, have := t.bad[n]; !have {
								t.bad[n] = nu.msg
							}
							return
						}
						panic(r)
					}
				}()
				t.function(n)
			}()
		}
		// blocks: tables, then functions in dependency order
		blocks := map[string]string{}
		var names []string
		var mnames []string
		for n := range p.maps {
			mnames = append(mnames, n)
		}
		sort.Strings(mnames)
		for _, n := range mnames {
			mi := p.maps[n]
			var ents []string
			for i := range mi.keys {
				if mi.valT == "string" {
					ents = append(ents, fmt.Sprintf("(%d, %s)", mi.keys[i], strings.TrimSuffix(strings.TrimPrefix(bytesLit(mi.strs[i]), "("), " : Bytes)")))
				} else {
					ents = append(ents, fmt.Sprintf("(%d, 0x%016X)", mi.keys[i], mi.bits[i]))
				}
			}
			ty := map[string]string{"string": "List (Int × Bytes)", "float": "List (Int × Nat)"}[mi.valT]
			blocks["tbl_"+n] = fmt.Sprintf("@[gtab] def tbl_%s : %s := [%s]\n", n, ty, strings.Join(ents, ", "))
			names = append(names, "tbl_"+n)
		}
		for _, n := range t.order {
			if _, bad := t.bad[n]; bad {
				continue
			}
			blocks[defName(n)] = t.done[n]
			names = append(names, defName(n))
		}
		// not understood: the reference text, with whatever it refers to that no longer exists
		var bad []string
		for n := range t.bad {
			bad = append(bad, n)
		}
		sort.Strings(bad)
		var pull func(name string)
		pull = func(name string) {
			if _, have := blocks[name]; have {
				return
			}
			txt, ok := ref[ns][name]
			if !ok {
				return
			}
			blocks[name] = "" // placeholder against cycles
			for _, id := range identRe.FindAllString(txt, -1) {
				if id != name {
					if _, isRef := ref[ns][id]; isRef {
						pull(id)
					}
				}
			}
			blocks[name] = txt
			names = append(names, name)
		}
		for _, n := range bad {
			nuList = append(nuList, ns+"."+defName(n))
			problems = append(problems, fmt.Sprintf("%s.%s: %s", ns, n, t.bad[n]))
			pull(defName(n))
		}
		// functions of the reference that no longer exist in the source at all (renamed, removed): reference text, listed
		var refNames []string
		for n := range ref[ns] {
			refNames = append(refNames, n)
		}
		sort.Strings(refNames)
		for _, n := range refNames {
			if _, have := blocks[n]; !have && !strings.HasPrefix(n, "tbl_") && n != "revTables" && n != "consts" {
				nuList = append(nuList, ns+"."+n)
				problems = append(problems, fmt.Sprintf("%s.%s: no such function in the source", ns, n))
				pull(n)
			}
		}
		fmt.Fprintf(&b, "namespace CvssVerif.Gen.%s\nopen CvssVerif CvssVerif.GoMap\n\n", ns)
		for _, n := range names {
			if blocks[n] == "" {
				fatal = true
				continue
			}
			fmt.Fprintf(&b, "-- @def %s\n%s\n", n, blocks[n])
			total++
		}
		// obligations and inventories
		var revs []string
		for n := range t.rev {
			revs = append(revs, n)
		}
		sort.Strings(revs)
		var rl []string
		for _, n := range revs {
			rl = append(rl, fmt.Sprintf("(\"%s\", tbl_%s)", n, n))
		}
		fmt.Fprintf(&b, "-- @def revTables\n/-- the code tables searched by a `for k, v := range` loop: their values must be pairwise different -/\ndef revTables : List (String × List (Int × Bytes)) := [%s]\n\n", strings.Join(rl, ", "))
		var cn []string
		for n := range p.consts {
			cn = append(cn, n)
		}
		sort.Strings(cn)
		var cl []string
		for _, n := range cn {
			cl = append(cl, fmt.Sprintf("(\"%s\", %d)", n, p.consts[n].val))
		}
		fmt.Fprintf(&b, "-- @def consts\ndef consts : List (String × Int) := [%s]\n\n", strings.Join(cl, ", "))
		fmt.Fprintf(&b, "end CvssVerif.Gen.%s\n\n", ns)
	}
	if !fatal {
		if err := os.WriteFile(out, []byte(b.String()), 0o644); err != nil {
			fmt.Fprintln(os.Stderr, err)
			os.Exit(1)
		}
	}
	sort.Strings(problems)
	for _, p := range problems {
		fmt.Println("problem:", p)
	}
	sort.Strings(nuList)
	fmt.Printf("not-understood: %s\n", strings.Join(nuList, " "))
	fmt.Printf("tables: definitions=%d problems=%d written=%v\n", total, len(problems), !fatal)
}
