module verif/tables

go 1.22
