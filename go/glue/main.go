// glue: regenerates lean/CvssVerif/Generated/Glue.lean from the *source text* of the template-export glue of
// /repo/v3/report (go/parser only): getTempleteString, executeTemplate and the ExportWith / ExportWithString methods of the
// three report types are translated statement by statement into Lean functions in which
//   - the io.Reader argument is the model's `Reader` (nil interface / a reader that fails / one that delivers a text),
//   - the receiver is represented by whether it is nil,
//   - `io.Copy(buf, r)`, `template.New(..).Parse(text)` and `t.Execute(buf, data)` are the parameters `ioCopy`, `E.parse`, `E.exec`
//     (code outside the repository: their assumed behaviour is in Model/GlueRt.lean and in the trusted base),
//   - an error is the sentinel it wraps (`errs.Wrap(cvsserr.ErrX, …)` ↦ `.x`, `errs.Wrap(err)` ↦ err),
//   - a run-time panic (io.Copy from a nil reader, Execute on a nil template) is `none`.
// Props/SrcGlue.lean proves the translated methods equal to `some` of the model's `exportWith` / `exportWithString`
// for every engine, receiver, reader and text (C19).
// Statements outside this vocabulary make a function "not understood": the reference text is kept and nothing is claimed.
//
// usage: glue <repo> <out.lean> [reference.lean]
package main

import (
	"bytes"
	"fmt"
	"go/ast"
	"go/build"
	"go/parser"
	"go/printer"
	"go/token"
	"os"
	"path/filepath"
	"regexp"
	"sort"
	"strings"
)

type notUnderstood struct{ msg string }

func fail(f string, a ...interface{}) { panic(notUnderstood{fmt.Sprintf(f, a...)}) }

func buildOK(dir string) func(os.FileInfo) bool {
	return func(fi os.FileInfo) bool {
		if strings.HasSuffix(fi.Name(), "_test.go") {
			return false
		}
		ok, err := build.Default.MatchFile(dir, fi.Name())
		return err == nil && ok
	}
}

func src(n ast.Node) string {
	var b bytes.Buffer
	if err := printer.Fprint(&b, token.NewFileSet(), n); err != nil {
		return "?"
	}
	return strings.Join(strings.Fields(b.String()), " ")
}

func ident(e ast.Expr) string {
	if id, ok := e.(*ast.Ident); ok {
		return id.Name
	}
	return ""
}

var sentinels = map[string]string{"ErrNullPointer": "nullPointer", "ErrInvalidTemplate": "invalidTemplate", "ErrInvalidVector": "invalidVector",
	"ErrNotSupportVer": "notSupportVer", "ErrNotSupportMetric": "notSupportMetric", "ErrSameMetric": "sameMetric", "ErrInvalidValue": "invalidValue",
	"ErrNoBaseMetrics": "noBaseMetrics", "ErrNoTemporalMetrics": "noTemporalMetrics", "ErrNoEnvironmentalMetrics": "noEnvironmentalMetrics",
	"ErrMisordered": "misordered"}

// kinds of Go variables in scope
const (
	kReader = "reader" // io.Reader parameter            : Reader
	kRecv   = "recv"   // the pointer receiver            : its nil-ness, `repNil`
	kStr    = "str"    // string                          : Bytes
	kErr    = "err"    // error of the library            : Option Err
	kExt    = "ext"    // error of code outside           : Bool (failed)
	kBuf    = "buf"    // *bytes.Buffer                   : Bytes (its content)
	kTmpl   = "tmpl"   // *template.Template              : Option E.T (none = nil)
	kData   = "data"   // the interface{} handed to Execute
)

type fn struct {
	name    string // Lean name
	recv    string // receiver type name or ""
	decl    *ast.FuncDecl
	retKind string // "str" (string, error) or "rd" (io.Reader, error)
}

type tr struct {
	fns  map[string]*fn // by Go name ("getTempleteString", "BaseReport.ExportWith", ...)
	cur  *fn
	env  map[string]string
	lean map[string]string // Go variable -> Lean name
}

func (t *tr) bind(goName, kind string) string {
	t.env[goName] = kind
	t.lean[goName] = goName + "_"
	return t.lean[goName]
}

func (t *tr) kind(e ast.Expr) string {
	if n := ident(e); n != "" {
		return t.env[n]
	}
	return ""
}

// errExpr: an expression in error position
func (t *tr) errExpr(e ast.Expr) string {
	if ident(e) == "nil" {
		return "none"
	}
	c, ok := e.(*ast.CallExpr)
	if !ok || src(c.Fun) != "errs.Wrap" || len(c.Args) == 0 {
		fail("error expression %s", src(e))
	}
	// further arguments are options (errs.WithCause, errs.WithContext): they do not change what errors.Is answers
	for _, a := range c.Args[1:] {
		ac, ok := a.(*ast.CallExpr)
		if !ok || (src(ac.Fun) != "errs.WithCause" && src(ac.Fun) != "errs.WithContext") {
			fail("errs.Wrap option %s", src(a))
		}
	}
	a0 := c.Args[0]
	if se, ok := a0.(*ast.SelectorExpr); ok && ident(se.X) == "cvsserr" {
		if l, ok := sentinels[se.Sel.Name]; ok {
			return "(some Err." + l + ")"
		}
		fail("unknown sentinel %s", se.Sel.Name)
	}
	if t.kind(a0) == kErr {
		return t.lean[ident(a0)]
	}
	fail("errs.Wrap of %s", src(a0))
	return ""
}

// valExpr: an expression in the first result position
func (t *tr) valExpr(e ast.Expr) string {
	if t.cur.retKind == "str" {
		if bl, ok := e.(*ast.BasicLit); ok && bl.Value == `""` {
			return "([] : Bytes)"
		}
		if c, ok := e.(*ast.CallExpr); ok && len(c.Args) == 0 {
			if se, ok := c.Fun.(*ast.SelectorExpr); ok && se.Sel.Name == "String" && t.kind(se.X) == kBuf {
				return t.lean[ident(se.X)]
			}
		}
		if t.kind(e) == kStr {
			return t.lean[ident(e)]
		}
		fail("string result %s", src(e))
	}
	if ident(e) == "nil" {
		return "(none : Option Bytes)"
	}
	if t.kind(e) == kBuf {
		return "(some " + t.lean[ident(e)] + ")"
	}
	fail("reader result %s", src(e))
	return ""
}

// callExpr: a call of another function of the glue, as a Lean term of type Option (α × Option Err)
func (t *tr) callExpr(e ast.Expr) (string, *fn) {
	c, ok := e.(*ast.CallExpr)
	if !ok {
		return "", nil
	}
	if n := ident(c.Fun); n != "" {
		f := t.fns[n]
		if f == nil {
			return "", nil
		}
		switch n {
		case "getTempleteString":
			if len(c.Args) != 1 || t.kind(c.Args[0]) != kReader {
				fail("call %s", src(e))
			}
			return "getTempleteString " + t.lean[ident(c.Args[0])], f
		case "executeTemplate":
			// the data handed to the engine must be the report itself
			if len(c.Args) != 2 || t.kind(c.Args[0]) != kRecv || t.kind(c.Args[1]) != kStr {
				fail("call %s", src(e))
			}
			return "executeTemplate E repNil " + t.lean[ident(c.Args[1])], f
		}
		return "", nil
	}
	if se, ok := c.Fun.(*ast.SelectorExpr); ok && t.kind(se.X) == kRecv {
		f := t.fns[t.cur.recv+"."+se.Sel.Name]
		if f == nil {
			return "", nil
		}
		switch se.Sel.Name {
		case "ExportWithString":
			if len(c.Args) != 1 || t.kind(c.Args[0]) != kStr {
				fail("call %s", src(e))
			}
			return f.name + " E repNil " + t.lean[ident(c.Args[0])], f
		case "ExportWith":
			if len(c.Args) != 1 || t.kind(c.Args[0]) != kReader {
				fail("call %s", src(e))
			}
			return f.name + " E repNil " + t.lean[ident(c.Args[0])], f
		}
	}
	return "", nil
}

func (t *tr) ret(r *ast.ReturnStmt) string {
	if len(r.Results) == 1 {
		if call, f := t.callExpr(r.Results[0]); f != nil {
			if f.retKind != t.cur.retKind {
				fail("return %s: result types differ", src(r))
			}
			return call
		}
		fail("return %s", src(r))
	}
	if len(r.Results) != 2 {
		fail("return %s", src(r))
	}
	return "some (" + t.valExpr(r.Results[0]) + ", " + t.errExpr(r.Results[1]) + ")"
}

// onlyReturn: a block that is one return statement
func (t *tr) onlyReturn(b *ast.BlockStmt) string {
	if b == nil || len(b.List) != 1 {
		fail("block %s", src(b))
	}
	r, ok := b.List[0].(*ast.ReturnStmt)
	if !ok {
		fail("block %s", src(b))
	}
	return t.ret(r)
}

func isNilCmp(e ast.Expr, op token.Token) (ast.Expr, bool) {
	be, ok := e.(*ast.BinaryExpr)
	if !ok || be.Op != op || ident(be.Y) != "nil" {
		return nil, false
	}
	return be.X, true
}

func indent(s, pad string) string { return pad + strings.ReplaceAll(s, "\n", "\n"+pad) }

func (t *tr) stmts(list []ast.Stmt) string {
	if len(list) == 0 {
		fail("function falls off its end")
	}
	s, rest := list[0], list[1:]
	switch x := s.(type) {
	case *ast.ReturnStmt:
		if len(rest) != 0 {
			fail("statements after return")
		}
		return t.ret(x)
	case *ast.IfStmt:
		if x.Else != nil {
			fail("if with else: %s", src(x))
		}
		if x.Init == nil {
			if v, ok := isNilCmp(x.Cond, token.EQL); ok {
				switch t.kind(v) {
				case kReader:
					return fmt.Sprintf("if %s.isNil then %s else\n%s", t.lean[ident(v)], t.onlyReturn(x.Body), t.stmts(rest))
				case kRecv:
					return fmt.Sprintf("if repNil then %s else\n%s", t.onlyReturn(x.Body), t.stmts(rest))
				}
			}
			if v, ok := isNilCmp(x.Cond, token.NEQ); ok {
				switch t.kind(v) {
				case kErr:
					return fmt.Sprintf("if %s.isSome then %s else\n%s", t.lean[ident(v)], t.onlyReturn(x.Body), t.stmts(rest))
				case kExt:
					return fmt.Sprintf("if %s then %s else\n%s", t.lean[ident(v)], t.onlyReturn(x.Body), t.stmts(rest))
				}
			}
			fail("condition %s", src(x.Cond))
		}
		// if <lhs> := <external call>; err != nil { return … }
		as, ok := x.Init.(*ast.AssignStmt)
		if !ok || as.Tok != token.DEFINE || len(as.Rhs) != 1 {
			fail("if-init %s", src(x.Init))
		}
		v, ok := isNilCmp(x.Cond, token.NEQ)
		errName := ident(as.Lhs[len(as.Lhs)-1])
		if !ok || ident(v) != errName || errName == "" || errName == "_" {
			fail("condition %s after %s", src(x.Cond), src(x.Init))
		}
		c, ok := as.Rhs[0].(*ast.CallExpr)
		if !ok {
			fail("if-init %s", src(x.Init))
		}
		save, saveL := t.env[errName], t.lean[errName]
		t.bind(errName, kExt) // scoped to the if statement
		thenRet := t.onlyReturn(x.Body)
		t.env[errName], t.lean[errName] = save, saveL
		switch src(c.Fun) {
		case "io.Copy":
			if len(as.Lhs) != 2 || ident(as.Lhs[0]) != "_" || len(c.Args) != 2 || t.kind(c.Args[0]) != kBuf || t.kind(c.Args[1]) != kReader {
				fail("call %s", src(x.Init))
			}
			b := t.lean[ident(c.Args[0])]
			return fmt.Sprintf("match ioCopy %s %s with\n| none => none\n| some (%s, %s_) =>\n  if %s_ then %s else\n%s",
				b, t.lean[ident(c.Args[1])], b, errName, errName, thenRet, indent(t.stmts(rest), "  "))
		}
		if se, ok := c.Fun.(*ast.SelectorExpr); ok && se.Sel.Name == "Execute" && t.kind(se.X) == kTmpl {
			if len(as.Lhs) != 1 || len(c.Args) != 2 || t.kind(c.Args[0]) != kBuf || t.kind(c.Args[1]) != kData {
				fail("call %s", src(x.Init))
			}
			b := t.lean[ident(c.Args[0])]
			return fmt.Sprintf("match %s with\n| none => none\n| some tt_ =>\n  match E.exec tt_ with\n  | none => %s\n  | some out_ =>\n    let %s : Bytes := %s ++ out_\n%s",
				t.lean[ident(se.X)], thenRet, b, b, indent(t.stmts(rest), "    "))
		}
		fail("call %s", src(x.Init))
	case *ast.AssignStmt:
		if x.Tok != token.DEFINE || len(x.Rhs) != 1 {
			fail("assignment %s", src(x))
		}
		// buf := &bytes.Buffer{}
		if len(x.Lhs) == 1 && src(x.Rhs[0]) == "&bytes.Buffer{}" && ident(x.Lhs[0]) != "" && ident(x.Lhs[0]) != "_" {
			l := t.bind(ident(x.Lhs[0]), kBuf)
			return fmt.Sprintf("let %s : Bytes := []\n%s", l, t.stmts(rest))
		}
		if len(x.Lhs) == 2 && ident(x.Lhs[0]) != "" && ident(x.Lhs[0]) != "_" && ident(x.Lhs[1]) != "" && ident(x.Lhs[1]) != "_" {
			// str, err := getTempleteString(r)
			if call, f := t.callExpr(x.Rhs[0]); f != nil {
				if f.retKind != "str" {
					fail("assignment %s", src(x))
				}
				a, e := t.bind(ident(x.Lhs[0]), kStr), t.bind(ident(x.Lhs[1]), kErr)
				return fmt.Sprintf("match %s with\n| none => none\n| some (%s, %s) =>\n%s", call, a, e, indent(t.stmts(rest), "  "))
			}
			// t, err := template.New("…").Parse(text)
			if c, ok := x.Rhs[0].(*ast.CallExpr); ok && len(c.Args) == 1 && t.kind(c.Args[0]) == kStr {
				if se, ok := c.Fun.(*ast.SelectorExpr); ok && se.Sel.Name == "Parse" {
					if nc, ok := se.X.(*ast.CallExpr); ok && src(nc.Fun) == "template.New" && len(nc.Args) == 1 {
						if bl, ok := nc.Args[0].(*ast.BasicLit); ok && bl.Kind == token.STRING {
							text := t.lean[ident(c.Args[0])]
							a, e := t.bind(ident(x.Lhs[0]), kTmpl), t.bind(ident(x.Lhs[1]), kExt)
							return fmt.Sprintf("let %s := E.parse %s\nlet %s : Bool := %s.isNone\n%s", a, text, e, a, t.stmts(rest))
						}
					}
				}
			}
		}
		fail("assignment %s", src(x))
	}
	fail("statement %s", src(s))
	return ""
}

func (t *tr) function(f *fn) string {
	t.cur, t.env, t.lean = f, map[string]string{}, map[string]string{}
	fd := f.decl
	params := []string{}
	if fd.Recv != nil {
		if len(fd.Recv.List) != 1 || len(fd.Recv.List[0].Names) != 1 || src(fd.Recv.List[0].Type) != "*"+f.recv {
			fail("receiver %s", src(fd.Recv))
		}
		t.bind(fd.Recv.List[0].Names[0].Name, kRecv)
	}
	for _, fl := range fd.Type.Params.List {
		for _, n := range fl.Names {
			switch src(fl.Type) {
			case "io.Reader":
				params = append(params, fmt.Sprintf("(%s : Reader)", t.bind(n.Name, kReader)))
			case "string":
				params = append(params, fmt.Sprintf("(%s : Bytes)", t.bind(n.Name, kStr)))
			case "interface{}", "any":
				t.bind(n.Name, kData)
			default:
				fail("parameter type %s", src(fl.Type))
			}
		}
	}
	res := fd.Type.Results
	if res == nil || len(res.List) != 2 || src(res.List[1].Type) != "error" || len(res.List[0].Names) != 0 {
		fail("result types")
	}
	want := map[string]string{"str": "string", "rd": "io.Reader"}[f.retKind]
	if src(res.List[0].Type) != want {
		fail("result type %s", src(res.List[0].Type))
	}
	rt := map[string]string{"str": "Bytes", "rd": "Option Bytes"}[f.retKind]
	head := "def " + f.name
	switch {
	case f.name == "getTempleteString":
	default:
		head += " (E : Engine) (repNil : Bool)"
	}
	if f.name == "executeTemplate" {
		// the data argument is the report (checked at the call sites); its nil-ness is not looked at by this function
		head = "def executeTemplate (E : Engine) (_repNil : Bool)"
	}
	body := t.stmts(fd.Body.List)
	return fmt.Sprintf("%s %s : Option (%s × Option Err) :=\n%s\n", head, strings.Join(params, " "), rt, indent(body, "  "))
}

var blockRe = regexp.MustCompile(`(?m)^-- @def (\S+)\n`)

func refBlocks(path string) map[string]string {
	res := map[string]string{}
	b, err := os.ReadFile(path)
	if err != nil {
		return res
	}
	sec := string(b)
	locs := blockRe.FindAllStringSubmatchIndex(sec, -1)
	for i, l := range locs {
		name := sec[l[2]:l[3]]
		stop := len(sec)
		if i+1 < len(locs) {
			stop = locs[i+1][0]
		}
		txt := sec[l[1]:stop]
		if j := strings.Index(txt, "\nend CvssVerif.Gen.Glue"); j >= 0 {
			txt = txt[:j+1]
		}
		res[name] = strings.TrimRight(txt, "\n") + "\n"
	}
	return res
}

func main() {
	if len(os.Args) != 3 && len(os.Args) != 4 {
		fmt.Fprintln(os.Stderr, "usage: glue <repo> <out.lean> [reference.lean]")
		os.Exit(2)
	}
	repo, out := os.Args[1], os.Args[2]
	ref := map[string]string{}
	if len(os.Args) == 4 {
		ref = refBlocks(os.Args[3])
	}
	dir := filepath.Join(repo, "v3/report")
	pkgs, err := parser.ParseDir(token.NewFileSet(), dir, buildOK(dir), 0)
	if err != nil {
		fmt.Fprintln(os.Stderr, "glue:", err)
		os.Exit(1)
	}
	t := &tr{fns: map[string]*fn{}}
	// in dependency order (a function may only call those before it, or — for ExportWith — its own type's ExportWithString)
	order := []string{"getTempleteString", "executeTemplate"}
	for _, ty := range []string{"BaseReport", "TemporalReport", "EnvironmentalReport"} {
		order = append(order, ty+".ExportWithString", ty+".ExportWith")
	}
	for _, pk := range pkgs {
		for _, f := range pk.Files {
			for _, d := range f.Decls {
				fd, ok := d.(*ast.FuncDecl)
				if !ok || fd.Body == nil {
					continue
				}
				key, recv := fd.Name.Name, ""
				if fd.Recv != nil && len(fd.Recv.List) == 1 {
					recv = strings.TrimPrefix(src(fd.Recv.List[0].Type), "*")
					key = recv + "." + key
				}
				for _, o := range order {
					if o == key {
						rk := "rd"
						if key == "getTempleteString" {
							rk = "str"
						}
						t.fns[key] = &fn{name: strings.ReplaceAll(key, ".", "_"), recv: recv, decl: fd, retKind: rk}
					}
				}
			}
		}
	}
	blocks := map[string]string{}
	var problems, nu []string
	for _, key := range order {
		name := strings.ReplaceAll(key, ".", "_")
		func() {
			defer func() {
				if r := recover(); r != nil {
					if n, ok := r.(notUnderstood); ok {
						problems = append(problems, key+": "+n.msg)
						nu = append(nu, name)
						if txt, ok := ref[name]; ok {
							blocks[name] = txt
						}
						return
					}
					panic(r)
				}
			}()
			f := t.fns[key]
			if f == nil {
				fail("no such function")
			}
			blocks[name] = t.function(f)
		}()
	}
	var b strings.Builder
	b.WriteString("/- GENERATED on every run by go/glue from the source text of the template-export glue of /repo/v3/report — do not edit. -/\n" +
		"import CvssVerif.Model.GlueRt\n\nnamespace CvssVerif.Gen.Glue\nopen CvssVerif CvssVerif.Report\n\n")
	fatal := false
	for _, key := range order {
		name := strings.ReplaceAll(key, ".", "_")
		if blocks[name] == "" {
			fatal = true
			continue
		}
		fmt.Fprintf(&b, "-- @def %s\n%s\n", name, blocks[name])
	}
	b.WriteString("end CvssVerif.Gen.Glue\n")
	if !fatal {
		if err := os.WriteFile(out, []byte(b.String()), 0o644); err != nil {
			fmt.Fprintln(os.Stderr, err)
			os.Exit(1)
		}
	}
	sort.Strings(problems)
	for _, p := range problems {
		fmt.Println("problem:", p)
	}
	sort.Strings(nu)
	fmt.Printf("not-understood: %s\n", strings.Join(nu, " "))
	fmt.Printf("glue: problems=%d written=%v\n", len(problems), !fatal)
}
