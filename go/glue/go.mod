module verif/glue

go 1.22
