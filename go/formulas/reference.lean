/- GENERATED on every run by go/formulas from the source text of the score and severity functions of
   /repo/v3/metric and /repo/v2/metric — do not edit.  Constants are the bits of the correctly rounded literal;
   the per-metric methods (Value, IsChanged, IsEmpty, GetError) are the model's primitives. -/
import CvssVerif.Model.V3
import CvssVerif.Model.V2

namespace CvssVerif.Gen.F3
open CvssVerif CvssVerif.F64 CvssVerif.V3 CvssVerif.V3.M3

def roundUp (input_ : Nat) : Nat :=
  (let intInput_ := (round (mul input_ 0x40F86A0000000000));
    (if (decide ((toInt intInput_).tmod 10000 = 0))
    then (div intInput_ 0x40F86A0000000000)
    else (div (add (floor (div intInput_ 0x40C3880000000000)) 0x3FF0000000000000) 0x4024000000000000)))

def severity (score_ : Nat) : Int :=
  (if (le score_ 0x0000000000000000)
    then 1
    else (if ((lt 0x0000000000000000 score_) && (lt score_ 0x4010000000000000))
      then 2
      else (if ((le 0x4010000000000000 score_) && (lt score_ 0x401C000000000000))
        then 3
        else (if ((le 0x401C000000000000 score_) && (lt score_ 0x4022000000000000))
          then 4
          else (if (le 0x4022000000000000 score_)
            then 5
            else 0)))))

def Base_Score (o : Obj3) : Nat :=
  (if (getErrorBase o).isSome
    then 0x0000000000000000
    else (let changed_ := ((o.field .S) == 2);
      (let impact_ := (sub 0x3FF0000000000000 (mul (mul (sub 0x3FF0000000000000 (value0 .C (o.field .C))) (sub 0x3FF0000000000000 (value0 .I (o.field .I)))) (sub 0x3FF0000000000000 (value0 .A (o.field .A)))));
      (if changed_
      then (let impact_2 := (sub (mul 0x401E147AE147AE14 (sub impact_ 0x3F9DB22D0E560419)) (mul 0x400A000000000000 (powInt (sub impact_ 0x3F947AE147AE147B) 15)));
        (if (le impact_2 0x0000000000000000)
        then 0x0000000000000000
        else (let ease_ := (mul (mul (mul (mul 0x402070A3D70A3D71 (value0 .AV (o.field .AV))) (value0 .AC (o.field .AC))) (valuePR (o.field .PR) (o.field .S))) (value0 .UI (o.field .UI)));
          (if changed_
          then (roundUp (fmin (mul 0x3FF147AE147AE148 (add impact_2 ease_)) 0x4024000000000000))
          else (roundUp (fmin (add impact_2 ease_) 0x4024000000000000))))))
      else (let impact_3 := (mul impact_ 0x4019AE147AE147AE);
        (if (le impact_3 0x0000000000000000)
        then 0x0000000000000000
        else (let ease_2 := (mul (mul (mul (mul 0x402070A3D70A3D71 (value0 .AV (o.field .AV))) (value0 .AC (o.field .AC))) (valuePR (o.field .PR) (o.field .S))) (value0 .UI (o.field .UI)));
          (if changed_
          then (roundUp (fmin (mul 0x3FF147AE147AE148 (add impact_3 ease_2)) 0x4024000000000000))
          else (roundUp (fmin (add impact_3 ease_2) 0x4024000000000000))))))))))

def Temporal_Score (o : Obj3) : Nat :=
  (if (getErrorTemporal o).isSome
    then 0x0000000000000000
    else (roundUp (mul (mul (mul (Base_Score o) (value0 .E (o.field .E))) (value0 .RL (o.field .RL))) (value0 .RC (o.field .RC)))))

def Environmental_Score (o : Obj3) : Nat :=
  (if (getErrorEnv o).isSome
    then 0x0000000000000000
    else (let ModifiedImpactSubScore_ := (fmin (sub 0x3FF0000000000000 (mul (mul (sub 0x3FF0000000000000 (mul (value0 .CR (o.field .CR)) (valueMCIA .MC (o.field .MC) (o.field .C)))) (sub 0x3FF0000000000000 (mul (value0 .IR (o.field .IR)) (valueMCIA .MI (o.field .MI) (o.field .I))))) (sub 0x3FF0000000000000 (mul (value0 .AR (o.field .AR)) (valueMCIA .MA (o.field .MA) (o.field .A)))))) 0x3FED47AE147AE148);
      (let changes_ := (msIsChanged (o.field .MS) (o.field .S));
      (if changes_
      then (if (o.ver == 2)
        then (let ModifiedImpact_ := (sub (mul 0x401E147AE147AE14 (sub ModifiedImpactSubScore_ 0x3F9DB22D0E560419)) (mul 0x400A000000000000 (powInt (sub (mul ModifiedImpactSubScore_ 0x3FEF23A29C779A6B) 0x3F947AE147AE147B) 13)));
          (if (le ModifiedImpact_ 0x0000000000000000)
          then 0x0000000000000000
          else (let ModifiedExploitability_ := (mul (mul (mul (mul 0x402070A3D70A3D71 (valueMAV (o.field .MAV) (o.field .AV))) (valueMAC (o.field .MAC) (o.field .AC))) (valueMPR (o.field .MPR) (o.field .MS) (o.field .S) (o.field .PR))) (valueMUI (o.field .MUI) (o.field .UI)));
            (if changes_
            then (roundUp (mul (mul (mul (roundUp (fmin (mul 0x3FF147AE147AE148 (add ModifiedImpact_ ModifiedExploitability_)) 0x4024000000000000)) (value0 .E (o.field .E))) (value0 .RL (o.field .RL))) (value0 .RC (o.field .RC))))
            else (roundUp (mul (mul (mul (roundUp (fmin (add ModifiedImpact_ ModifiedExploitability_) 0x4024000000000000)) (value0 .E (o.field .E))) (value0 .RL (o.field .RL))) (value0 .RC (o.field .RC))))))))
        else (let ModifiedImpact_2 := (sub (mul 0x401E147AE147AE14 (sub ModifiedImpactSubScore_ 0x3F9DB22D0E560419)) (mul 0x400A000000000000 (powInt (sub ModifiedImpactSubScore_ 0x3F947AE147AE147B) 15)));
          (if (le ModifiedImpact_2 0x0000000000000000)
          then 0x0000000000000000
          else (let ModifiedExploitability_2 := (mul (mul (mul (mul 0x402070A3D70A3D71 (valueMAV (o.field .MAV) (o.field .AV))) (valueMAC (o.field .MAC) (o.field .AC))) (valueMPR (o.field .MPR) (o.field .MS) (o.field .S) (o.field .PR))) (valueMUI (o.field .MUI) (o.field .UI)));
            (if changes_
            then (roundUp (mul (mul (mul (roundUp (fmin (mul 0x3FF147AE147AE148 (add ModifiedImpact_2 ModifiedExploitability_2)) 0x4024000000000000)) (value0 .E (o.field .E))) (value0 .RL (o.field .RL))) (value0 .RC (o.field .RC))))
            else (roundUp (mul (mul (mul (roundUp (fmin (add ModifiedImpact_2 ModifiedExploitability_2) 0x4024000000000000)) (value0 .E (o.field .E))) (value0 .RL (o.field .RL))) (value0 .RC (o.field .RC)))))))))
      else (let ModifiedImpact_3 := (mul 0x4019AE147AE147AE ModifiedImpactSubScore_);
        (if (le ModifiedImpact_3 0x0000000000000000)
        then 0x0000000000000000
        else (let ModifiedExploitability_3 := (mul (mul (mul (mul 0x402070A3D70A3D71 (valueMAV (o.field .MAV) (o.field .AV))) (valueMAC (o.field .MAC) (o.field .AC))) (valueMPR (o.field .MPR) (o.field .MS) (o.field .S) (o.field .PR))) (valueMUI (o.field .MUI) (o.field .UI)));
          (if changes_
          then (roundUp (mul (mul (mul (roundUp (fmin (mul 0x3FF147AE147AE148 (add ModifiedImpact_3 ModifiedExploitability_3)) 0x4024000000000000)) (value0 .E (o.field .E))) (value0 .RL (o.field .RL))) (value0 .RC (o.field .RC))))
          else (roundUp (mul (mul (mul (roundUp (fmin (add ModifiedImpact_3 ModifiedExploitability_3) 0x4024000000000000)) (value0 .E (o.field .E))) (value0 .RL (o.field .RL))) (value0 .RC (o.field .RC))))))))))))

end CvssVerif.Gen.F3

namespace CvssVerif.Gen.F2
open CvssVerif CvssVerif.F64 CvssVerif.V2 CvssVerif.V2.M2

def roundTo1Decimal (input_ : Nat) : Nat :=
  (div (round (mul input_ 0x4024000000000000)) 0x4024000000000000)

def roundTo2Decimal (input_ : Nat) : Nat :=
  (div (round (mul input_ 0x4059000000000000)) 0x4059000000000000)

def severity (score_ : Nat) : Int :=
  (if ((le 0x0000000000000000 score_) && (lt score_ 0x4010000000000000))
    then 1
    else (if ((le 0x4010000000000000 score_) && (lt score_ 0x401C000000000000))
      then 2
      else (if (le 0x401C000000000000 score_)
        then 3
        else 0)))

def Base_score (o : Obj2) (impact_ : Nat) : Nat :=
  (if (getErrorBase o).isSome
    then 0x0000000000000000
    else (let exploitability_ := (roundTo2Decimal (mul (mul (mul 0x4034000000000000 (value .AV (o.field .AV))) (value .AC (o.field .AC))) (value .Au (o.field .Au))));
      (if (eq impact_ 0x0000000000000000)
      then (roundTo1Decimal (mul (sub (add (mul 0x3FE3333333333333 impact_) (mul 0x3FD999999999999A exploitability_)) 0x3FF8000000000000) 0x0000000000000000))
      else (roundTo1Decimal (mul (sub (add (mul 0x3FE3333333333333 impact_) (mul 0x3FD999999999999A exploitability_)) 0x3FF8000000000000) 0x3FF2D0E560418937)))))

def Temporal_score (o : Obj2) (baseScore_ : Nat) : Nat :=
  (roundTo1Decimal (mul (mul (mul baseScore_ (value .E (o.field .E))) (value .RL (o.field .RL))) (value .RC (o.field .RC))))

def Base_Score (o : Obj2) : Nat :=
  (if (getErrorBase o).isSome
    then 0x0000000000000000
    else (let impact_ := (roundTo2Decimal (mul 0x4024D1EB851EB852 (sub 0x3FF0000000000000 (mul (mul (sub 0x3FF0000000000000 (value .C (o.field .C))) (sub 0x3FF0000000000000 (value .I (o.field .I)))) (sub 0x3FF0000000000000 (value .A (o.field .A)))))));
      (Base_score o impact_)))

def Temporal_Score (o : Obj2) : Nat :=
  (if (getErrorTemporal o).isSome
    then 0x0000000000000000
    else (let bs_ := (Base_Score o);
      (if (tempEmpty o)
      then bs_
      else (Temporal_score o bs_))))

def Environmental_Score (o : Obj2) : Nat :=
  (if (getErrorEnv o).isSome
    then 0x0000000000000000
    else (if (envEmpty o)
      then (let baseScore_ := (Base_Score o);
        (if (tempEmpty o)
        then (if (envEmpty o)
          then baseScore_
          else (roundTo1Decimal (mul (add baseScore_ (mul (sub 0x4024000000000000 baseScore_) (value .CDP (o.field .CDP)))) (value .TD (o.field .TD)))))
        else (let adjustedTemporal_ := (Temporal_score o baseScore_);
          (if (envEmpty o)
          then adjustedTemporal_
          else (roundTo1Decimal (mul (add adjustedTemporal_ (mul (sub 0x4024000000000000 adjustedTemporal_) (value .CDP (o.field .CDP)))) (value .TD (o.field .TD))))))))
      else (let adjustedImpact_ := (fmin 0x4024000000000000 (roundTo2Decimal (mul 0x4024D1EB851EB852 (sub 0x3FF0000000000000 (mul (mul (sub 0x3FF0000000000000 (mul (value .C (o.field .C)) (value .CR (o.field .CR)))) (sub 0x3FF0000000000000 (mul (value .I (o.field .I)) (value .IR (o.field .IR))))) (sub 0x3FF0000000000000 (mul (value .A (o.field .A)) (value .AR (o.field .AR)))))))));
        (let baseScore_2 := (Base_score o adjustedImpact_);
        (if (tempEmpty o)
        then (if (envEmpty o)
          then baseScore_2
          else (roundTo1Decimal (mul (add baseScore_2 (mul (sub 0x4024000000000000 baseScore_2) (value .CDP (o.field .CDP)))) (value .TD (o.field .TD)))))
        else (let adjustedTemporal_2 := (Temporal_score o baseScore_2);
          (if (envEmpty o)
          then adjustedTemporal_2
          else (roundTo1Decimal (mul (add adjustedTemporal_2 (mul (sub 0x4024000000000000 adjustedTemporal_2) (value .CDP (o.field .CDP)))) (value .TD (o.field .TD)))))))))))

end CvssVerif.Gen.F2

