module verif/formulas

go 1.22
