// formulas: regenerates lean/CvssVerif/Generated/Formulas.lean from the *source text* of the score and severity
// functions of /repo/v3/metric and /repo/v2/metric on every run (go/parser only).
//
// What is translated: the bodies of roundUp, severity, (*Base).Score, (*Temporal).Score, (*Environmental).Score (v3) and of
// roundTo1Decimal, roundTo2Decimal, severity, (*Base).Score, (*Base).score, (*Temporal).Score, (*Temporal).score,
// (*Environmental).Score (v2): a symbolic execution of the statements (locals are substituted, assignments and `op=`
// update the environment, `if`/`switch` duplicate the continuation, other unexported helpers of the package are inlined)
// turns every function into one expression over
//   * float64 constants (emitted as the 64 bits strconv.ParseFloat gives: what the Go compiler does with the literal),
//   * + - * / on float64, comparisons, && || !, math.Min / Pow (integral constant exponent) / Round / Floor, int(x)%k == c,
//   * the receiver's metric fields handed to the per-metric methods Value / IsChanged / IsEmpty / GetError, which are
//     *primitives* here (their tables are tied to the source by the exhaustive dumps of C20 and by C07/C08),
//   * calls of the translated functions themselves.
// Anything else is reported as "not understood" (problems=N): the caller then keeps the committed reference file and
// records that the translation tie was not available in that run.
//
// usage: formulas <repo> <out.lean>
package main

import (
	"fmt"
	"go/ast"
	"go/build"
	"go/parser"
	"go/token"
	"math"
	"os"
	"path/filepath"
	"sort"
	"strconv"
	"strings"
)

type pkgInfo struct {
	ver     int // 3 or 2
	funcs   map[string]*ast.FuncDecl // "roundUp", "Base.Score", ...
	structs map[string]*ast.StructType
	consts  map[string]ast.Expr // package-level untyped numeric constants
}

var problems []string

// buildOK: the file is part of the package as the compiler sees it here (no test file; its build constraints — //go:build lines and
// _GOOS / _GOARCH suffixes — are satisfied without extra tags, so verif_hooks.go is left out)
func buildOK(dir string) func(os.FileInfo) bool {
	return func(fi os.FileInfo) bool {
		if strings.HasSuffix(fi.Name(), "_test.go") {
			return false
		}
		ok, err := build.Default.MatchFile(dir, fi.Name())
		return err == nil && ok
	}
}

func problem(f string, a ...interface{}) { problems = append(problems, fmt.Sprintf(f, a...)) }

func load(dir string, ver int) *pkgInfo {
	fset := token.NewFileSet()
	pkgs, err := parser.ParseDir(fset, dir, buildOK(dir), 0)
	if err != nil {
		fmt.Fprintln(os.Stderr, "formulas:", err)
		os.Exit(1)
	}
	p := &pkgInfo{ver: ver, funcs: map[string]*ast.FuncDecl{}, structs: map[string]*ast.StructType{}, consts: map[string]ast.Expr{}}
	for _, pk := range pkgs {
		for _, f := range pk.Files {
			for _, d := range f.Decls {
				switch x := d.(type) {
				case *ast.FuncDecl:
					name := x.Name.Name
					if x.Recv != nil && len(x.Recv.List) == 1 {
						name = recvType(x.Recv.List[0].Type) + "." + name
					}
					p.funcs[name] = x
				case *ast.GenDecl:
					for _, sp := range x.Specs {
						switch s := sp.(type) {
						case *ast.TypeSpec:
							if st, ok := s.Type.(*ast.StructType); ok {
								p.structs[s.Name.Name] = st
							}
						case *ast.ValueSpec:
							if x.Tok == token.CONST && len(s.Names) == len(s.Values) {
								for i, n := range s.Names {
									if bl, ok := s.Values[i].(*ast.BasicLit); ok && (bl.Kind == token.INT || bl.Kind == token.FLOAT) {
										p.consts[n.Name] = bl
									}
								}
							}
						}
					}
				}
			}
		}
	}
	return p
}

func recvType(e ast.Expr) string {
	if s, ok := e.(*ast.StarExpr); ok {
		e = s.X
	}
	if id, ok := e.(*ast.Ident); ok {
		return id.Name
	}
	return "?"
}

// ---------------------------------------------------------------------------------------------------------------
// the expression language

type kind int

const (
	kFloat kind = iota
	kBool
	kInt   // metric field (Go int enumeration)
	kObj   // the receiver seen as one of its levels
	kIntNum // integer literal (only inside int(x)%k == c and as a math.Pow exponent)
)

type expr struct {
	k    kind
	op   string  // "num" "var" "bin" "call" "field" "ite" "obj" "inum" ...
	s    string  // operator / function / field / variable name
	bits uint64
	n    int64
	a    []*expr
}

func num(f float64) *expr { return &expr{k: kFloat, op: "num", bits: math.Float64bits(f)} }

// levels of the receiver object
var levelOf = map[string]string{"Base": "Base", "Temporal": "Temporal", "Environmental": "Environmental"}

type counter struct{ n map[string]int }

type env struct {
	ctr    *counter
	p      *pkgInfo
	recv   string // receiver variable name ("" for plain functions)
	rtype  string // Base / Temporal / Environmental
	locals map[string]*expr
	depth  int
}

func (e *env) clone() *env {
	l := map[string]*expr{}
	for k, v := range e.locals {
		l[k] = v
	}
	return &env{ctr: e.ctr, p: e.p, recv: e.recv, rtype: e.rtype, locals: l, depth: e.depth}
}

func trivial(x *expr) bool {
	switch x.op {
	case "num", "var", "field", "ver", "true", "false", "sev", "inum", "obj", "haserr":
		return true
	}
	return false
}

// bind gives the value of a local a name of its own (a Lean `let`) unless it is trivial; `wrap` must be applied to the
// expression computed from the rest of the block
func (e *env) bind(name string, v *expr) (wrap func(*expr) *expr) {
	if trivial(v) {
		e.locals[name] = v
		return func(r *expr) *expr { return r }
	}
	e.ctr.n[name]++
	ln := name + "_"
	if c := e.ctr.n[name]; c > 1 {
		ln = fmt.Sprintf("%s_%d", name, c)
	}
	e.locals[name] = &expr{k: v.k, op: "var", s: ln}
	return func(r *expr) *expr {
		if r == nil {
			return nil
		}
		return &expr{k: r.k, op: "let", s: ln, a: []*expr{v, r}}
	}
}

// field lookup through the embedded pointers: which struct (level) declares it
func (p *pkgInfo) fieldLevel(start, field string) (string, string, bool) {
	t := start
	for i := 0; i < 4; i++ {
		st, ok := p.structs[t]
		if !ok {
			return "", "", false
		}
		next := ""
		for _, f := range st.Fields.List {
			if len(f.Names) == 0 { // embedded
				next = recvType(f.Type)
				continue
			}
			for _, n := range f.Names {
				if n.Name == field {
					return t, recvType(f.Type), true
				}
			}
		}
		if next == "" {
			return "", "", false
		}
		t = next
	}
	return "", "", false
}

// the functions that get a generated definition of their own (calls to them are kept as calls)
var namedPlain = map[int][]string{3: {"roundUp", "severity"}, 2: {"roundTo1Decimal", "roundTo2Decimal", "severity"}}
var namedMeth = map[int][]string{3: {"Base.Score", "Temporal.Score", "Environmental.Score"},
	2: {"Base.Score", "Base.score", "Temporal.Score", "Temporal.score", "Environmental.Score"}}

func isNamed(ver int, n string) bool {
	for _, x := range namedPlain[ver] {
		if x == n {
			return true
		}
	}
	for _, x := range namedMeth[ver] {
		if x == n {
			return true
		}
	}
	return false
}

type notUnderstood struct{ msg string }

func fail(f string, a ...interface{}) { panic(notUnderstood{fmt.Sprintf(f, a...)}) }

// evaluates the receiver-rooted selector chain: returns ("obj", level) or ("field", name)
func (e *env) selector(x ast.Expr) *expr {
	switch v := x.(type) {
	case *ast.Ident:
		if v.Name == e.recv && e.recv != "" {
			return &expr{k: kObj, op: "obj", s: e.rtype}
		}
		if l, ok := e.locals[v.Name]; ok && (l.op == "field" || l.op == "ver" || l.op == "obj") {
			return l // a parameter of a helper that was handed a metric field (or the receiver) of the object
		}
	case *ast.SelectorExpr:
		base := e.selector(v.X)
		if base != nil && base.k == kObj {
			name := v.Sel.Name
			if _, ok := levelOf[name]; ok { // m.Base, m.Temporal: embedded pointer
				if lv, _, ok := e.p.fieldLevel(base.s, "__none__"); ok || lv == "" {
					// check the embedding really exists on the path
					if e.p.embeds(base.s, name) {
						return &expr{k: kObj, op: "obj", s: name}
					}
				}
				return nil
			}
			if name == "Ver" && e.p.ver == 3 {
				return &expr{k: kInt, op: "ver"}
			}
			if _, typ, ok := e.p.fieldLevel(base.s, name); ok {
				return &expr{k: kInt, op: "field", s: name, a: []*expr{{op: "type", s: typ}}}
			}
		}
	}
	return nil
}

func (p *pkgInfo) embeds(start, target string) bool {
	t := start
	for i := 0; i < 4; i++ {
		st, ok := p.structs[t]
		if !ok {
			return false
		}
		next := ""
		for _, f := range st.Fields.List {
			if len(f.Names) == 0 {
				next = recvType(f.Type)
			}
		}
		if next == "" {
			return false
		}
		if next == target {
			return true
		}
		t = next
	}
	return false
}

func parseNum(bl *ast.BasicLit) (float64, bool) {
	f, err := strconv.ParseFloat(strings.ReplaceAll(bl.Value, "_", ""), 64)
	return f, err == nil
}

func (e *env) eval(x ast.Expr) *expr {
	switch v := x.(type) {
	case *ast.ParenExpr:
		return e.eval(v.X)
	case *ast.BasicLit:
		if v.Kind == token.FLOAT || v.Kind == token.INT {
			f, ok := parseNum(v)
			if !ok {
				fail("literal %s", v.Value)
			}
			r := num(f)
			if v.Kind == token.INT {
				r.n, _ = strconv.ParseInt(v.Value, 0, 64)
				r.s = "intlit"
			}
			return r
		}
		fail("literal %s", v.Value)
	case *ast.Ident:
		if l, ok := e.locals[v.Name]; ok {
			return l
		}
		if v.Name == "true" {
			return &expr{k: kBool, op: "true"}
		}
		if v.Name == "false" {
			return &expr{k: kBool, op: "false"}
		}
		if c, ok := e.p.consts[v.Name]; ok {
			return e.eval(c)
		}
		if e.p.ver == 3 && (v.Name == "V3_1" || v.Name == "V3_0") {
			return &expr{k: kIntNum, op: "inum", n: map[string]int64{"V3_0": 1, "V3_1": 2}[v.Name]}
		}
		fail("identifier %s", v.Name)
	case *ast.UnaryExpr:
		a := e.eval(v.X)
		if v.Op == token.NOT && a.k == kBool {
			return &expr{k: kBool, op: "not", a: []*expr{a}}
		}
		if v.Op == token.SUB && a.k == kFloat && a.op == "num" {
			return num(-math.Float64frombits(a.bits))
		}
		fail("unary %s", v.Op)
	case *ast.BinaryExpr:
		return e.binary(v)
	case *ast.CallExpr:
		return e.call(v)
	case *ast.SelectorExpr:
		if s := e.selector(v); s != nil {
			return s
		}
		fail("selector %s", short(v))
	}
	fail("expression %T", x)
	return nil
}

func short(x ast.Expr) string {
	switch v := x.(type) {
	case *ast.Ident:
		return v.Name
	case *ast.SelectorExpr:
		return short(v.X) + "." + v.Sel.Name
	case *ast.CallExpr:
		return short(v.Fun) + "(…)"
	}
	return fmt.Sprintf("%T", x)
}

func (e *env) binary(v *ast.BinaryExpr) *expr {
	// int(x) % k == c
	if v.Op == token.EQL || v.Op == token.NEQ {
		if m, ok := v.X.(*ast.BinaryExpr); ok && m.Op == token.REM {
			if c, ok := m.X.(*ast.CallExpr); ok && len(c.Args) == 1 {
				if id, ok := c.Fun.(*ast.Ident); ok && id.Name == "int" {
					x := e.eval(c.Args[0])
					k := e.eval(m.Y)
					r := e.eval(v.Y)
					if x.k == kFloat && k.s == "intlit" && r.s == "intlit" {
						res := &expr{k: kBool, op: "intmodeq", a: []*expr{x}, n: k.n, bits: uint64(r.n)}
						if v.Op == token.NEQ {
							return &expr{k: kBool, op: "not", a: []*expr{res}}
						}
						return res
					}
				}
			}
			fail("integer remainder of an unknown shape")
		}
	}
	if v.Op == token.EQL || v.Op == token.NEQ {
		if id, ok := v.Y.(*ast.Ident); ok && id.Name == "nil" {
			if lid, ok := v.X.(*ast.Ident); ok {
				if l, ok := e.locals[lid.Name]; ok && l.op == "haserr" {
					if v.Op == token.NEQ {
						return l
					}
					return &expr{k: kBool, op: "not", a: []*expr{l}}
				}
			}
			if c, ok := v.X.(*ast.CallExpr); ok {
				r := e.eval(c)
				if r.op == "haserr" {
					if v.Op == token.NEQ {
						return r
					}
					return &expr{k: kBool, op: "not", a: []*expr{r}}
				}
			}
			fail("comparison with nil")
		}
	}
	a, b := e.eval(v.X), e.eval(v.Y)
	switch v.Op {
	case token.ADD, token.SUB, token.MUL, token.QUO:
		if a.k == kFloat && b.k == kFloat {
			if a.op == "num" && b.op == "num" {
				fail("constant expression (folded by the compiler in exact arithmetic)")
			}
			return &expr{k: kFloat, op: "bin", s: map[token.Token]string{token.ADD: "add", token.SUB: "sub", token.MUL: "mul", token.QUO: "div"}[v.Op], a: []*expr{a, b}}
		}
	case token.LSS, token.LEQ, token.GTR, token.GEQ, token.EQL, token.NEQ:
		if a.k == kFloat && b.k == kFloat {
			switch v.Op {
			case token.LSS:
				return &expr{k: kBool, op: "cmp", s: "lt", a: []*expr{a, b}}
			case token.LEQ:
				return &expr{k: kBool, op: "cmp", s: "le", a: []*expr{a, b}}
			case token.GTR:
				return &expr{k: kBool, op: "cmp", s: "lt", a: []*expr{b, a}}
			case token.GEQ:
				return &expr{k: kBool, op: "cmp", s: "le", a: []*expr{b, a}}
			case token.EQL:
				return &expr{k: kBool, op: "cmp", s: "eq", a: []*expr{a, b}}
			case token.NEQ:
				return &expr{k: kBool, op: "not", a: []*expr{{k: kBool, op: "cmp", s: "eq", a: []*expr{a, b}}}}
			}
		}
		if a.k == kInt && a.op == "ver" && b.k == kIntNum && (v.Op == token.EQL || v.Op == token.NEQ) {
			r := &expr{k: kBool, op: "vereq", n: b.n}
			if v.Op == token.NEQ {
				return &expr{k: kBool, op: "not", a: []*expr{r}}
			}
			return r
		}
	case token.LAND, token.LOR:
		if a.k == kBool && b.k == kBool {
			return &expr{k: kBool, op: map[token.Token]string{token.LAND: "and", token.LOR: "or"}[v.Op], a: []*expr{a, b}}
		}
	}
	fail("binary %s on %s, %s", v.Op, short(v.X), short(v.Y))
	return nil
}

func (e *env) call(c *ast.CallExpr) *expr {
	args := func() []*expr {
		r := make([]*expr, len(c.Args))
		for i, a := range c.Args {
			r[i] = e.eval(a)
		}
		return r
	}
	switch f := c.Fun.(type) {
	case *ast.Ident:
		if f.Name == "float64" && len(c.Args) == 1 {
			a := e.eval(c.Args[0])
			if a.k == kFloat {
				return a
			}
		}
		if fd, ok := e.p.funcs[f.Name]; ok && fd.Recv == nil {
			as := args()
			if isNamed(e.p.ver, f.Name) {
				k := kFloat
				if f.Name == "severity" {
					k = kInt
				}
				return &expr{k: k, op: "call", s: f.Name, a: as}
			}
			return e.inline(fd, nil, as)
		}
		fail("call of %s", f.Name)
	case *ast.SelectorExpr:
		if id, ok := f.X.(*ast.Ident); ok && id.Name == "math" {
			as := args()
			switch f.Sel.Name {
			case "Min":
				if len(as) == 2 && as[0].k == kFloat && as[1].k == kFloat {
					return &expr{k: kFloat, op: "call", s: "fmin", a: as}
				}
			case "Round", "Floor":
				if len(as) == 1 && as[0].k == kFloat {
					return &expr{k: kFloat, op: "call", s: strings.ToLower(f.Sel.Name), a: as}
				}
			case "Pow":
				if len(as) == 2 && as[0].k == kFloat && as[1].op == "num" {
					ex := math.Float64frombits(as[1].bits)
					if ex == math.Trunc(ex) && ex >= 0 && ex < 1000 {
						return &expr{k: kFloat, op: "pow", n: int64(ex), a: as[:1]}
					}
				}
			}
			fail("math.%s of this shape", f.Sel.Name)
		}
		recv := e.selector(f.X)
		if recv == nil {
			fail("method call on %s", short(f.X))
		}
		m := f.Sel.Name
		if recv.k == kObj {
			full := recv.s + "." + m
			switch m {
			case "GetError":
				if len(c.Args) == 0 {
					return &expr{k: kBool, op: "haserr", s: recv.s} // only used through `err != nil`
				}
			case "IsEmpty":
				if len(c.Args) == 0 && e.p.ver == 2 && (recv.s == "Temporal" || recv.s == "Environmental") {
					return &expr{k: kBool, op: "isempty", s: recv.s}
				}
			}
			if fd, ok := e.p.funcs[full]; ok {
				as := args()
				if isNamed(e.p.ver, full) {
					return &expr{k: kFloat, op: "mcall", s: full, a: as}
				}
				return e.inline(fd, recv, as)
			}
			// promoted method: look it up on the embedded levels
			for _, up := range []string{"Temporal", "Base"} {
				if e.p.embeds(recv.s, up) {
					if fd, ok := e.p.funcs[up+"."+m]; ok {
						as := args()
						if isNamed(e.p.ver, up+"."+m) {
							return &expr{k: kFloat, op: "mcall", s: up + "." + m, a: as}
						}
						return e.inline(fd, &expr{k: kObj, op: "obj", s: up}, as)
					}
				}
			}
			fail("method %s", full)
		}
		if recv.op == "field" { // per-metric primitive
			as := args()
			for _, a := range as {
				if a.op != "field" {
					fail("argument of %s.%s is not a metric field of the receiver", recv.s, m)
				}
			}
			switch m {
			case "Value":
				return &expr{k: kFloat, op: "prim", s: "Value", a: append([]*expr{recv}, as...)}
			case "IsChanged":
				return &expr{k: kBool, op: "prim", s: "IsChanged", a: append([]*expr{recv}, as...)}
			}
			fail("metric method %s.%s", recv.s, m)
		}
	}
	fail("call %s", short(c.Fun))
	return nil
}

// inlines an unexported helper: its body is executed symbolically with the parameters bound
func (e *env) inline(fd *ast.FuncDecl, recv *expr, as []*expr) *expr {
	if e.depth > 6 {
		fail("helper nesting too deep at %s", fd.Name.Name)
	}
	ne := &env{ctr: e.ctr, p: e.p, locals: map[string]*expr{}, depth: e.depth + 1}
	var wraps []func(*expr) *expr
	if fd.Recv != nil {
		if recv == nil || len(fd.Recv.List) != 1 || len(fd.Recv.List[0].Names) != 1 {
			fail("helper method %s", fd.Name.Name)
		}
		ne.recv = fd.Recv.List[0].Names[0].Name
		ne.rtype = recv.s
		if recvType(fd.Recv.List[0].Type) != recv.s {
			fail("helper method %s on another level", fd.Name.Name)
		}
	}
	i := 0
	for _, p := range fd.Type.Params.List {
		for _, n := range p.Names {
			if i >= len(as) {
				fail("arity of %s", fd.Name.Name)
			}
			wraps = append(wraps, ne.bind(n.Name, as[i]))
			i++
		}
	}
	if i != len(as) || fd.Body == nil {
		fail("arity of %s", fd.Name.Name)
	}
	r := ne.block(fd.Body.List)
	if r == nil {
		fail("helper %s may fall off its end", fd.Name.Name)
	}
	for j := len(wraps) - 1; j >= 0; j-- {
		r = wraps[j](r)
	}
	return r
}

func ite(c, a, b *expr) *expr {
	if c.op == "true" {
		return a
	}
	if c.op == "false" {
		return b
	}
	return &expr{k: a.k, op: "ite", a: []*expr{c, a, b}}
}

// block executes a statement list and returns the expression the function returns on this path (nil: falls through)
func (e *env) block(stmts []ast.Stmt) *expr {
	var wraps []func(*expr) *expr
	done := func(r *expr) *expr {
		for j := len(wraps) - 1; j >= 0; j-- {
			r = wraps[j](r)
		}
		return r
	}
	for i, s := range stmts {
		rest := stmts[i+1:]
		switch v := s.(type) {
		case *ast.ReturnStmt:
			if len(v.Results) != 1 {
				fail("return with %d results", len(v.Results))
			}
			return done(e.eval(v.Results[0]))
		case *ast.DeclStmt:
			gd, ok := v.Decl.(*ast.GenDecl)
			if !ok || gd.Tok != token.VAR {
				fail("declaration")
			}
			for _, sp := range gd.Specs {
				vs := sp.(*ast.ValueSpec)
				for j, n := range vs.Names {
					if len(vs.Values) > j {
						wraps = append(wraps, e.bind(n.Name, e.eval(vs.Values[j])))
					} else if id, ok := vs.Type.(*ast.Ident); ok && id.Name == "float64" {
						e.locals[n.Name] = num(0)
					} else if ok && id.Name == "bool" {
						e.locals[n.Name] = &expr{k: kBool, op: "false"}
					} else {
						fail("var %s of this type", n.Name)
					}
				}
			}
		case *ast.AssignStmt:
			if len(v.Lhs) != 1 || len(v.Rhs) != 1 {
				fail("multiple assignment")
			}
			id, ok := v.Lhs[0].(*ast.Ident)
			if !ok {
				fail("assignment to %s (not a local variable)", short(v.Lhs[0]))
			}
			r := e.eval(v.Rhs[0])
			switch v.Tok {
			case token.DEFINE, token.ASSIGN:
				if v.Tok == token.ASSIGN {
					if _, ok := e.locals[id.Name]; !ok {
						fail("assignment to %s (not a local variable)", id.Name)
					}
				}
				wraps = append(wraps, e.bind(id.Name, r))
			case token.ADD_ASSIGN, token.SUB_ASSIGN, token.MUL_ASSIGN, token.QUO_ASSIGN:
				l, ok := e.locals[id.Name]
				if !ok || l.k != kFloat || r.k != kFloat {
					fail("op-assignment to %s", id.Name)
				}
				op := map[token.Token]string{token.ADD_ASSIGN: "add", token.SUB_ASSIGN: "sub", token.MUL_ASSIGN: "mul", token.QUO_ASSIGN: "div"}[v.Tok]
				wraps = append(wraps, e.bind(id.Name, &expr{k: kFloat, op: "bin", s: op, a: []*expr{l, r}}))
			default:
				fail("assignment operator %s", v.Tok)
			}
		case *ast.IfStmt:
			var cond *expr
			ce := e
			if v.Init != nil { // if err := X.GetError(); err != nil {
				as, ok := v.Init.(*ast.AssignStmt)
				if !ok || len(as.Lhs) != 1 || len(as.Rhs) != 1 {
					fail("if-initialiser")
				}
				r := e.eval(as.Rhs[0])
				be, ok2 := v.Cond.(*ast.BinaryExpr)
				if r.op != "haserr" || !ok2 || short(be.X) != short(as.Lhs[0]) || short(be.Y) != "nil" {
					fail("if-initialiser other than `err := x.GetError(); err != nil`")
				}
				switch be.Op {
				case token.NEQ:
					cond = r
				case token.EQL:
					cond = &expr{k: kBool, op: "not", a: []*expr{r}}
				default:
					fail("error test")
				}
			} else {
				cond = e.eval(v.Cond)
			}
			if cond.k != kBool {
				fail("condition is not Boolean")
			}
			te := ce.clone()
			tr := te.block(append(append([]ast.Stmt{}, v.Body.List...), rest...))
			ee := ce.clone()
			var er *expr
			switch el := v.Else.(type) {
			case nil:
				er = ee.block(rest)
			case *ast.BlockStmt:
				er = ee.block(append(append([]ast.Stmt{}, el.List...), rest...))
			case *ast.IfStmt:
				er = ee.block(append([]ast.Stmt{el}, rest...))
			default:
				fail("else of this shape")
			}
			if tr == nil || er == nil {
				if cond.op == "true" {
					return done(tr)
				}
				if cond.op == "false" {
					return done(er)
				}
				return nil
			}
			return done(ite(cond, tr, er))
		case *ast.SwitchStmt:
			// switch true { case c: ... }  /  switch { case c: ... }
			if v.Init != nil {
				fail("switch with initialiser")
			}
			if v.Tag != nil {
				if id, ok := v.Tag.(*ast.Ident); !ok || id.Name != "true" {
					fail("switch on a value")
				}
			}
			var chain ast.Stmt
			var dflt []ast.Stmt
			hasD := false
			var cases []*ast.CaseClause
			for _, c := range v.Body.List {
				cc := c.(*ast.CaseClause)
				for _, st := range cc.Body {
					if br, ok := st.(*ast.BranchStmt); ok && br.Tok == token.FALLTHROUGH {
						fail("fallthrough")
					}
				}
				if cc.List == nil {
					dflt, hasD = cc.Body, true
				} else {
					cases = append(cases, cc)
				}
			}
			if hasD {
				chain = &ast.BlockStmt{List: dflt}
			}
			for j := len(cases) - 1; j >= 0; j-- {
				cc := cases[j]
				var cond ast.Expr = cc.List[0]
				for _, o := range cc.List[1:] {
					cond = &ast.BinaryExpr{X: cond, Op: token.LOR, Y: o}
				}
				chain = &ast.IfStmt{Cond: cond, Body: &ast.BlockStmt{List: cc.Body}, Else: chain}
			}
			if chain == nil {
				continue
			}
			if b, ok := chain.(*ast.BlockStmt); ok {
				return done(e.block(append(append([]ast.Stmt{}, b.List...), rest...)))
			}
			return done(e.block(append([]ast.Stmt{chain}, rest...)))
		case *ast.BlockStmt:
			return done(e.block(append(append([]ast.Stmt{}, v.List...), rest...)))
		case *ast.EmptyStmt:
		default:
			fail("statement %T", s)
		}
	}
	if len(wraps) > 0 {
		return done(nil)
	}
	return nil
}

// ---------------------------------------------------------------------------------------------------------------
// Lean output

var v3Types = map[string]string{"AV": "AttackVector", "AC": "AttackComplexity", "PR": "PrivilegesRequired", "UI": "UserInteraction", "S": "Scope",
	"C": "ConfidentialityImpact", "I": "IntegrityImpact", "A": "AvailabilityImpact", "E": "Exploitability", "RL": "RemediationLevel", "RC": "ReportConfidence",
	"CR": "ConfidentialityRequirement", "IR": "IntegrityRequirement", "AR": "AvailabilityRequirement", "MAV": "ModifiedAttackVector",
	"MAC": "ModifiedAttackComplexity", "MPR": "ModifiedPrivilegesRequired", "MUI": "ModifiedUserInteraction", "MS": "ModifiedScope",
	"MC": "ModifiedConfidentialityImpact", "MI": "ModifiedIntegrityImpact", "MA": "ModifiedAvailabilityImpact"}
var v2Types = map[string]string{"AV": "AccessVector", "AC": "AccessComplexity", "Au": "Authentication", "C": "ConfidentialityImpact", "I": "IntegrityImpact",
	"A": "AvailabilityImpact", "E": "Exploitability", "RL": "RemediationLevel", "RC": "ReportConfidence", "CDP": "CollateralDamagePotential",
	"TD": "TargetDistribution", "CR": "ConfidentialityRequirement", "IR": "IntegrityRequirement", "AR": "AvailabilityRequirement"}

func fld(ver int, f *expr) string {
	types := v3Types
	if ver == 2 {
		types = v2Types
	}
	if want, ok := types[f.s]; !ok || len(f.a) != 1 || f.a[0].s != want {
		fail("field %s of an unexpected type", f.s)
	}
	return "(o.field ." + f.s + ")"
}

func levelFn(prefix, lv string) string {
	return prefix + map[string]string{"Base": "Base", "Temporal": "Temporal", "Environmental": "Env"}[lv]
}

func defName(n string) string { return strings.ReplaceAll(n, ".", "_") }

func prim(ver int, x *expr) string {
	f := x.a[0]
	names := []string{}
	for _, a := range x.a[1:] {
		names = append(names, a.s)
	}
	argl := func() string {
		r := []string{fld(ver, f)}
		for _, a := range x.a[1:] {
			r = append(r, fld(ver, a))
		}
		return strings.Join(r, " ")
	}
	if ver == 2 {
		if x.s == "Value" && len(names) == 0 {
			return "(value ." + f.s + " " + fld(ver, f) + ")"
		}
		fail("v2 metric method %s.%s/%d", f.s, x.s, len(names))
	}
	if x.s == "IsChanged" {
		if f.s == "S" && len(names) == 0 {
			return "(" + fld(ver, f) + " == 2)"
		}
		if f.s == "MS" && len(names) == 1 {
			return "(msIsChanged " + argl() + ")"
		}
		fail("IsChanged on %s", f.s)
	}
	switch f.s {
	case "AV", "AC", "UI", "C", "I", "A", "E", "RL", "RC", "CR", "IR", "AR":
		if len(names) == 0 {
			return "(value0 ." + f.s + " " + fld(ver, f) + ")"
		}
	case "PR":
		if len(names) == 1 {
			return "(valuePR " + argl() + ")"
		}
	case "MC", "MI", "MA":
		if len(names) == 1 {
			return "(valueMCIA ." + f.s + " " + argl() + ")"
		}
	case "MAV", "MAC", "MUI":
		if len(names) == 1 {
			return "(value" + f.s + " " + argl() + ")"
		}
	case "MPR":
		if len(names) == 3 {
			return "(valueMPR " + argl() + ")"
		}
	}
	fail("metric method %s.%s/%d", f.s, x.s, len(names))
	return ""
}

func lean(ver int, x *expr, ind string) string {
	switch x.op {
	case "num":
		return fmt.Sprintf("0x%016X", x.bits)
	case "var":
		return x.s
	case "bin":
		return "(" + x.s + " " + lean(ver, x.a[0], ind) + " " + lean(ver, x.a[1], ind) + ")"
	case "pow":
		return fmt.Sprintf("(powInt %s %d)", lean(ver, x.a[0], ind), x.n)
	case "call":
		as := []string{}
		for _, a := range x.a {
			as = append(as, lean(ver, a, ind))
		}
		return "(" + x.s + " " + strings.Join(as, " ") + ")"
	case "mcall":
		as := []string{"o"}
		for _, a := range x.a {
			as = append(as, lean(ver, a, ind))
		}
		return "(" + defName(x.s) + " " + strings.Join(as, " ") + ")"
	case "prim":
		return prim(ver, x)
	case "cmp":
		return "(" + x.s + " " + lean(ver, x.a[0], ind) + " " + lean(ver, x.a[1], ind) + ")"
	case "and":
		return "(" + lean(ver, x.a[0], ind) + " && " + lean(ver, x.a[1], ind) + ")"
	case "or":
		return "(" + lean(ver, x.a[0], ind) + " || " + lean(ver, x.a[1], ind) + ")"
	case "not":
		return "(!" + lean(ver, x.a[0], ind) + ")"
	case "true", "false":
		return x.op
	case "intmodeq":
		return fmt.Sprintf("(decide ((toInt %s).tmod %d = %d))", lean(ver, x.a[0], ind), x.n, int64(x.bits))
	case "vereq":
		return fmt.Sprintf("(o.ver == %d)", x.n)
	case "haserr":
		return "(" + levelFn("getError", x.s) + " o).isSome"
	case "isempty":
		return "(" + map[string]string{"Temporal": "tempEmpty", "Environmental": "envEmpty"}[x.s] + " o)"
	case "ite":
		ni := ind + "  "
		return "(if " + lean(ver, x.a[0], ni) + "\n" + ni + "then " + lean(ver, x.a[1], ni) + "\n" + ni + "else " + lean(ver, x.a[2], ni) + ")"
	case "sev":
		return fmt.Sprintf("%d", x.n)
	case "let":
		return "(let " + x.s + " := " + lean(ver, x.a[0], ind+"  ") + ";\n" + ind + "  " + lean(ver, x.a[1], ind) + ")"
	}
	fail("cannot print %s", x.op)
	return ""
}

// severity constants: name -> integer of the model (iota order in the source)
func sevConsts(p *pkgInfo, dir string) map[string]int64 {
	fset := token.NewFileSet()
	f, err := parser.ParseFile(fset, filepath.Join(dir, "severity.go"), nil, 0)
	res := map[string]int64{}
	if err != nil {
		return res
	}
	for _, d := range f.Decls {
		gd, ok := d.(*ast.GenDecl)
		if !ok || gd.Tok != token.CONST {
			continue
		}
		for i, sp := range gd.Specs {
			vs := sp.(*ast.ValueSpec)
			if i == 0 {
				if len(vs.Values) != 1 {
					break
				}
				if id, ok := vs.Values[0].(*ast.Ident); !ok || id.Name != "iota" {
					break
				}
			} else if len(vs.Values) != 0 {
				break
			}
			for _, n := range vs.Names {
				if strings.HasPrefix(n.Name, "Severity") {
					res[n.Name] = int64(i)
				}
			}
		}
	}
	return res
}

type outDef struct{ name, sig, body string }

func translate(p *pkgInfo, dir string) (defs []outDef) {
	sev := sevConsts(p, dir)
	one := func(name string) {
		defer func() {
			if r := recover(); r != nil {
				if nu, ok := r.(notUnderstood); ok {
					problem("v%d %s: %s", p.ver, name, nu.msg)
					return
				}
				panic(r)
			}
		}()
		fd, ok := p.funcs[name]
		if !ok || fd.Body == nil {
			fail("function not found")
		}
		e := &env{ctr: &counter{n: map[string]int{}}, p: p, locals: map[string]*expr{}}
		sig := ""
		if fd.Recv != nil {
			if len(fd.Recv.List[0].Names) != 1 {
				fail("anonymous receiver")
			}
			e.recv = fd.Recv.List[0].Names[0].Name
			e.rtype = recvType(fd.Recv.List[0].Type)
			sig = fmt.Sprintf(" (o : Obj%d)", p.ver)
		}
		for _, prm := range fd.Type.Params.List {
			id, ok := prm.Type.(*ast.Ident)
			if !ok || id.Name != "float64" {
				fail("parameter type")
			}
			for _, n := range prm.Names {
				e.locals[n.Name] = &expr{k: kFloat, op: "var", s: n.Name + "_"}
				sig += " (" + n.Name + "_ : Nat)"
			}
		}
		if name == "severity" {
			for k, v := range sev {
				e.locals[k] = &expr{k: kInt, op: "sev", n: v}
			}
			sig += " : Int"
		} else {
			sig += " : Nat"
		}
		r := e.block(fd.Body.List)
		if r == nil {
			fail("may fall off its end")
		}
		defs = append(defs, outDef{defName(name), sig, lean(p.ver, r, "  ")})
	}
	for _, n := range namedPlain[p.ver] {
		one(n)
	}
	for _, n := range namedMeth[p.ver] {
		one(n)
	}
	return
}

func topo(defs []outDef, ver int) []outDef {
	var out []outDef
	done := map[string]bool{}
	for len(out) < len(defs) {
		progress := false
		for _, d := range defs {
			if done[d.name] {
				continue
			}
			ready := true
			for _, o := range defs {
				if o.name != d.name && !done[o.name] && strings.Contains(d.body, "("+o.name+" ") {
					ready = false
				}
				if o.name == d.name && strings.Contains(d.body, "("+o.name+" ") {
					ready = false // recursion
				}
			}
			if ready {
				out = append(out, d)
				done[d.name] = true
				progress = true
			}
		}
		if !progress {
			problem("v%d: the translated functions call each other in a cycle", ver)
			return defs
		}
	}
	return out
}

// refDefs reads the reference translation (the translator's output on the pinned tree): namespace -> definition name -> text
func refDefs(path string) map[string]map[string]outDef {
	res := map[string]map[string]outDef{}
	b, err := os.ReadFile(path)
	if err != nil {
		return res
	}
	ns := ""
	var cur *outDef
	flush := func() {
		if cur != nil {
			cur.body = strings.TrimRight(cur.body, "\n")
			res[ns][cur.name] = *cur
			cur = nil
		}
	}
	for _, line := range strings.Split(string(b), "\n") {
		switch {
		case strings.HasPrefix(line, "namespace CvssVerif.Gen."):
			ns = strings.TrimPrefix(line, "namespace CvssVerif.Gen.")
			res[ns] = map[string]outDef{}
		case strings.HasPrefix(line, "end CvssVerif.Gen."):
			flush()
		case strings.HasPrefix(line, "def "):
			flush()
			rest := strings.TrimPrefix(line, "def ")
			name := rest
			sig := ""
			if i := strings.IndexAny(rest, " "); i >= 0 {
				name, sig = rest[:i], rest[i:]
			}
			sig = strings.TrimSuffix(sig, " :=")
			cur = &outDef{name: name, sig: sig}
		default:
			if cur != nil {
				if cur.body == "" {
					cur.body = strings.TrimPrefix(line, "  ")
				} else {
					cur.body += "\n" + line
				}
			}
		}
	}
	return res
}

func main() {
	if len(os.Args) != 3 && len(os.Args) != 4 {
		fmt.Fprintln(os.Stderr, "usage: formulas <repo> <out.lean> [reference.lean]")
		os.Exit(2)
	}
	repo, out := os.Args[1], os.Args[2]
	ref := map[string]map[string]outDef{}
	if len(os.Args) == 4 {
		ref = refDefs(os.Args[3])
	}
	var b strings.Builder
	b.WriteString("/- GENERATED on every run by go/formulas from the source text of the score and severity functions of\n" +
		"   /repo/v3/metric and /repo/v2/metric — do not edit.  Constants are the bits of the correctly rounded literal;\n" +
		"   the per-metric methods (Value, IsChanged, IsEmpty, GetError) are the model's primitives. -/\n" +
		"import CvssVerif.Model.V3\nimport CvssVerif.Model.V2\n\n")
	n := 0
	var notUnderstoodFns []string
	fatal := false
	for _, pv := range []struct {
		ver int
		dir string
	}{{3, "v3/metric"}, {2, "v2/metric"}} {
		dir := filepath.Join(repo, pv.dir)
		p := load(dir, pv.ver)
		defs := translate(p, dir)
		ns := fmt.Sprintf("F%d", pv.ver)
		have := map[string]bool{}
		for _, d := range defs {
			have[d.name] = true
		}
		// a function outside the translator's subset keeps the reference translation (so that the others can still be
		// checked) and is listed as not understood
		for _, nm := range append(append([]string{}, namedPlain[pv.ver]...), namedMeth[pv.ver]...) {
			dn := defName(nm)
			if !have[dn] {
				notUnderstoodFns = append(notUnderstoodFns, ns+"."+dn)
				if rd, ok := ref[ns][dn]; ok {
					defs = append(defs, rd)
				} else {
					fatal = true
				}
			}
		}
		fmt.Fprintf(&b, "namespace CvssVerif.Gen.F%d\nopen CvssVerif CvssVerif.F64 CvssVerif.V%d CvssVerif.V%d.M%d\n\n", pv.ver, pv.ver, pv.ver, pv.ver)
		// emit in dependency order (a cycle is "not understood")
		before := len(problems)
		defs = topo(defs, pv.ver)
		if len(problems) != before {
			fatal = true
		}
		for _, d := range defs {
			fmt.Fprintf(&b, "def %s%s :=\n  %s\n\n", d.name, d.sig, d.body)
			n++
		}
		fmt.Fprintf(&b, "end CvssVerif.Gen.F%d\n\n", pv.ver)
	}
	sort.Strings(problems)
	if !fatal {
		if err := os.WriteFile(out, []byte(b.String()), 0o644); err != nil {
			fmt.Fprintln(os.Stderr, err)
			os.Exit(1)
		}
	}
	for _, p := range problems {
		fmt.Println("problem:", p)
	}
	sort.Strings(notUnderstoodFns)
	fmt.Printf("not-understood: %s\n", strings.Join(notUnderstoodFns, " "))
	fmt.Printf("formulas: definitions=%d problems=%d written=%v\n", n, len(problems), !fatal)
}
