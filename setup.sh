#!/bin/bash
# Offline setup after a fresh restore: build the Lean library (model, spec, proofs), the model
# driver and the Go harness.  Nothing is fetched.
set -e
cd "$(dirname "$0")"
export GOFLAGS=-mod=mod GOPROXY=off GOSUMDB=off GOTOOLCHAIN=local
mkdir -p .build evidence replays
(cd go/extract && GOCACHE="$PWD/../../.build/gocache" go build -o ../../.build/extract . && ../../.build/extract /repo "$PWD/../../lean/CvssVerif/Generated/Names.lean")
(cd go/effects && GOCACHE="$PWD/../../.build/gocache" go build -o ../../.build/effects . && ../../.build/effects /repo "$PWD/../../lean/CvssVerif/Generated/Effects.lean")
(cd lean && LEAN_NUM_THREADS=16 lake build CvssVerif cvssmodel)
cp /repo/go.sum go/harness/go.sum
(cd go/harness && { GOCACHE="$PWD/../../.build/gocache" CGO_ENABLED=0 go build -tags verif -o ../../.build/harness . || GOCACHE="$PWD/../../.build/gocache" CGO_ENABLED=0 go build -o ../../.build/harness . ; })
echo "setup ok"
