#!/bin/bash
# Offline setup after a fresh restore: build the Lean library (model, spec, proofs), the model
# driver and the Go harness.  Nothing is fetched.
set -e
cd "$(dirname "$0")"
export GOFLAGS=-mod=mod GOPROXY=off GOSUMDB=off GOTOOLCHAIN=local
mkdir -p .build evidence replays
(cd go/extract && GOCACHE="$PWD/../../.build/gocache" go build -o ../../.build/extract . && ../../.build/extract /repo "$PWD/../../lean/CvssVerif/Generated/Names.lean")
(cd go/effects && GOCACHE="$PWD/../../.build/gocache" go build -o ../../.build/effects . && ../../.build/effects /repo "$PWD/../../lean/CvssVerif/Generated/Effects.lean")
(cd go/formulas && GOCACHE="$PWD/../../.build/gocache" go build -o ../../.build/formulas . && { ../../.build/formulas /repo "$PWD/../../lean/CvssVerif/Generated/Formulas.lean" "$PWD/reference.lean" || cp reference.lean ../../lean/CvssVerif/Generated/Formulas.lean; })
(cd go/tables && GOCACHE="$PWD/../../.build/gocache" go build -o ../../.build/tables . && { ../../.build/tables /repo "$PWD/../../lean/CvssVerif/Generated/Tables.lean" "$PWD/reference.lean" || cp reference.lean ../../lean/CvssVerif/Generated/Tables.lean; })
(cd go/wiring && GOCACHE="$PWD/../../.build/gocache" go build -o ../../.build/wiring . && { ../../.build/wiring /repo "$PWD/../../lean/CvssVerif/Generated/Wiring.lean" "$PWD/reference.lean" || cp reference.lean ../../lean/CvssVerif/Generated/Wiring.lean; })
(cd go/glue && GOCACHE="$PWD/../../.build/gocache" go build -o ../../.build/glue . && { ../../.build/glue /repo "$PWD/../../lean/CvssVerif/Generated/Glue.lean" "$PWD/reference.lean" || cp reference.lean ../../lean/CvssVerif/Generated/Glue.lean; })
(cd go/decoders && GOCACHE="$PWD/../../.build/gocache" go build -o ../../.build/decoders . && { ../../.build/decoders /repo "$PWD/../../lean/CvssVerif/Generated/Decoders.lean" "$PWD/reference.lean" || cp reference.lean ../../lean/CvssVerif/Generated/Decoders.lean; })
(cd lean && LEAN_NUM_THREADS=16 lake build CvssVerif cvssmodel)
# the tie by translation of the score functions (not part of the library root: a source that is no longer provably the model
# must not stop the other modules from building; check.py reports it per property)
(cd lean && LEAN_NUM_THREADS=16 lake build CvssVerif.Props.Src) || echo "setup: Props/Src.lean does not check against /repo's current formulas (reported by the checks of C01-C06, C13)"
# the tie by translation of the per-metric types (same reason for keeping it out of the library root; reported by C20)
(cd lean && LEAN_NUM_THREADS=16 lake build CvssVerif.Props.SrcTab) || echo "setup: Props/SrcTab.lean does not check against /repo's current metric types (reported by the check of C20)"
# the tie by translation of the decoders, encoders and validity checks (reported by C07-C12)
(cd lean && LEAN_NUM_THREADS=16 lake build CvssVerif.Props.SrcDec CvssVerif.Props.SrcAll CvssVerif.Props.SrcRep CvssVerif.Props.SrcGlue) || echo "setup: Props/SrcDec.lean does not check against /repo's current decoders (reported by the checks of C07-C12)"
cp /repo/go.sum go/harness/go.sum
(cd go/harness && { GOCACHE="$PWD/../../.build/gocache" CGO_ENABLED=0 go build -tags verif -o ../../.build/harness . || GOCACHE="$PWD/../../.build/gocache" CGO_ENABLED=0 go build -o ../../.build/harness . ; })
echo "setup ok"
