"""Shared plumbing for the checks: building, running the two executors, diffing, evidence."""
import hashlib
import json
import os
import subprocess
import sys
import time
from concurrent.futures import ThreadPoolExecutor

VERIF = os.path.dirname(os.path.dirname(os.path.abspath(__file__)))
REPO = os.environ.get("VERIF_REPO", "/repo")
BUILD = os.path.join(VERIF, ".build")
LEAN = os.path.join(VERIF, "lean")
HARNESS = os.path.join(BUILD, "harness")
MODEL = os.path.join(LEAN, ".lake", "build", "bin", "cvssmodel")
NPROC = min(16, os.cpu_count() or 4)

GOENV = dict(os.environ, GOFLAGS="-mod=mod", GOPROXY="off", GOSUMDB="off", GOTOOLCHAIN="local",
             GOCACHE=os.path.join(BUILD, "gocache"), CGO_ENABLED=os.environ.get("CGO_ENABLED", "0"))


class BuildError(Exception):
    pass


def sh(cmd, cwd=None, env=None, timeout=None, check=True):
    p = subprocess.run(cmd, cwd=cwd, env=env, stdout=subprocess.PIPE, stderr=subprocess.STDOUT,
                       timeout=timeout, text=True)
    if check and p.returncode != 0:
        raise BuildError("command failed (%d): %s\n%s" % (p.returncode, " ".join(cmd), p.stdout[-4000:]))
    return p


def build_harness(race=False):
    """Rebuild the Go harness from /repo's current working tree with hooks enabled."""
    os.makedirs(BUILD, exist_ok=True)
    src = os.path.join(VERIF, "go", "harness")
    # go.sum must cover the library's dependencies
    with open(os.path.join(REPO, "go.sum")) as f:
        want = f.read()
    gs = os.path.join(src, "go.sum")
    if not os.path.exists(gs) or open(gs).read() != want:
        with open(gs, "w") as f:
            f.write(want)
    out = HARNESS + ("-race" if race else "")
    if os.path.exists(out):
        os.remove(out)
    env = dict(GOENV)
    global HOOKS, HOOKS_ERROR, TABS_DIRECT, TABS_ERROR
    if race:
        env["CGO_ENABLED"] = "1"
    # in order: with the library's hooks; without them (the library may no longer compile with its `verif` hooks: they
    # touch unexported names, and everything the verdicts need is observable through the exported API); then the same two
    # without the file that calls the per-metric types' exported functions directly (an exported signature of theirs
    # may have changed: the T3 / T2 operations then answer "api=changed", which the property that owns them reports)
    combos = [(True, True), (False, True), (True, False), (False, False)]
    last = None
    for hooks, tabs in combos:
        tg = [t for t, on in (("verif", hooks), ("verif_notabs", not tabs)) if on]
        cmd = ["go", "build"] + (["-race"] if race else []) + (["-tags", ",".join(tg)] if tg else []) + ["-o", out, "."]
        for attempt in (0, 1):
            try:
                sh(cmd, cwd=src, env=env, timeout=600)
                HOOKS, TABS_DIRECT = hooks, tabs
                return out
            except BuildError as e:
                last = e
                if hooks and tabs:
                    HOOKS_ERROR = str(e)[-600:]
                if not hooks and tabs:
                    TABS_ERROR = str(e)[-600:]
                if (hooks, tabs) != combos[-1]:
                    break
                # one more attempt before giving up: a build that fails for a reason outside the sources (a busy machine,
                # a cache being written by another process) must not be reported as "the library does not build"
                import time
                time.sleep(2)
    raise last


HOOKS = True
HOOKS_ERROR = ""
TABS_DIRECT = True
TABS_ERROR = ""


def strip_names(line):
    """without the hooks the names sets are not observable: drop them from whole-line comparisons"""
    if HOOKS:
        return line
    return " ".join(t for t in line.split(" ") if not t.startswith("n=")).replace("&n=?", "")


def build_lean(targets):
    """lake build of the model driver and the requested proof modules (no-op when up to date)."""
    env = dict(os.environ, LEAN_NUM_THREADS=str(max(NPROC, 8)))
    p = sh(["lake", "build"] + list(targets), cwd=LEAN, env=env, timeout=7200, check=False)
    return p.returncode == 0, p.stdout


def go_info():
    p = sh(["go", "version"], env=GOENV)
    q = sh(["go", "env", "GOARCH", "GOAMD64"], env=GOENV)
    return p.stdout.strip() + " " + " ".join(q.stdout.split())


def _run_exec(binary, lines, timeout):
    data = ("\n".join(lines) + "\n").encode()
    p = subprocess.run([binary], input=data, stdout=subprocess.PIPE, stderr=subprocess.PIPE, timeout=timeout)
    out = p.stdout.decode("utf-8", "replace").split("\n")
    if out and out[-1] == "":
        out.pop()
    return p.returncode, out, p.stderr.decode("utf-8", "replace")[-2000:]


def run_sharded(binary, ops, timeout=3600, shards=None):
    """Run `binary` over the op lines, split into contiguous shards; returns the output lines in
    order.  A shard that crashes or returns the wrong number of lines is re-run op by op so that
    one bad op cannot hide the others."""
    n = len(ops)
    if n == 0:
        return []
    shards = shards or NPROC
    size = max(1, (n + shards - 1) // shards)
    parts = [ops[i:i + size] for i in range(0, n, size)]

    def work(part):
        rc, out, err = _run_exec(binary, part, timeout)
        if rc == 0 and len(out) == len(part):
            return out
        res = []
        for op in part:
            try:
                rc1, o1, e1 = _run_exec(binary, [op], 120)
            except subprocess.TimeoutExpired:
                res.append("TIMEOUT")
                continue
            if rc1 == 0 and len(o1) == 1:
                res.append(o1[0])
            else:
                res.append("CRASH rc=%d %s" % (rc1, (e1 or "").strip().replace("\n", " ")[:200]))
        return res

    with ThreadPoolExecutor(max_workers=len(parts)) as ex:
        outs = list(ex.map(work, parts))
    res = []
    for o in outs:
        res.extend(o)
    return res


def run_both(ops, timeout=3600):
    """(go_lines, model_lines) for the same op lines."""
    with ThreadPoolExecutor(max_workers=2) as ex:
        fg = ex.submit(run_sharded, HARNESS, ops, timeout, max(1, NPROC // 2))
        fm = ex.submit(run_sharded, MODEL, ops, timeout, NPROC)
        return fg.result(), fm.result()


def hx(s):
    if isinstance(s, str):
        s = s.encode("utf-8", "surrogateescape")
    return s.hex() or "-"


def unhx(h):
    return b"" if h == "-" else bytes.fromhex(h)


def parse_kv(line):
    """'r=1 e=- v=2 ...' -> dict"""
    d = {}
    for tok in line.split(" "):
        if "=" in tok:
            k, v = tok.split("=", 1)
            d[k] = v
        elif tok:
            d.setdefault("_", []).append(tok)
    return d


class Rng:
    """One deterministic PRNG for every random choice of a run (splitmix64)."""

    def __init__(self, seed):
        self.s = (seed * 0x9E3779B97F4A7C15 + 0x1234567) & 0xFFFFFFFFFFFFFFFF

    def next(self):
        self.s = (self.s + 0x9E3779B97F4A7C15) & 0xFFFFFFFFFFFFFFFF
        z = self.s
        z = ((z ^ (z >> 30)) * 0xBF58476D1CE4E5B9) & 0xFFFFFFFFFFFFFFFF
        z = ((z ^ (z >> 27)) * 0x94D049BB133111EB) & 0xFFFFFFFFFFFFFFFF
        return z ^ (z >> 31)

    def below(self, n):
        return self.next() % n

    def choice(self, xs):
        return xs[self.below(len(xs))]

    def shuffle(self, xs):
        xs = list(xs)
        for i in range(len(xs) - 1, 0, -1):
            j = self.below(i + 1)
            xs[i], xs[j] = xs[j], xs[i]
        return xs

    def chance(self, num, den):
        return self.below(den) < num


def write_replay(prop, payload):
    d = os.path.join(VERIF, "replays")
    os.makedirs(d, exist_ok=True)
    blob = json.dumps(payload, sort_keys=True, indent=1)
    h = hashlib.sha1(blob.encode()).hexdigest()[:12]
    path = os.path.join(d, "%s-%s.json" % (prop, h))
    with open(path, "w") as f:
        f.write(blob + "\n")
    return path


def write_evidence(prop, ev):
    d = os.path.join(VERIF, "evidence")
    os.makedirs(d, exist_ok=True)
    path = os.path.join(d, prop + ".json")
    tmp = path + ".tmp"
    with open(tmp, "w") as f:
        json.dump(ev, f, indent=1, sort_keys=True)
        f.write("\n")
    os.replace(tmp, path)
    return path


def load_known():
    p = os.path.join(VERIF, "known_findings.json")
    if not os.path.exists(p):
        return {"findings": [], "fixed": []}
    with open(p) as f:
        return json.load(f)


def now():
    return time.time()


def log(*a):
    print(*a, file=sys.stderr, flush=True)
