"""Generic runner for streams of decode/score operations: executes them on the implementation and
on the model, asks the specification oracle, compares, judges."""
from . import core, judge

# which keys of a result line belong to which property (the correspondence is compared per
# property on the projection, so that a change breaking one property does not alarm another)


def _idx(csv, i):
    p = csv.split(",") if csv is not None else []
    return p[i] if i < len(p) else None


def _upto(csv, n):
    p = csv.split(",") if csv is not None else []
    return tuple(p[:n])


FACT_PROPS = ("C06", "C13")


def validity_pattern(d):
    """what C12 says about an object that may be invalid: per level, does GetError() report an error, does
    Encode(), and is the score the positive zero wherever GetError() does (the value of a valid level's score
    is not C12's business)"""
    if "ge" not in d:
        return ()
    ge = d.get("ge", "").split(",")
    enc = d.get("enc", "").split(",")
    s = d.get("s", "").split(",")
    # which object a failed decode leaves behind (untouched, partly filled, complete) is not specified by any property and is
    # not compared; what C12 states is that the answers of that object are coherent: where GetError() reports, Encode() reports
    # too and the score is +0.  (A first version compared the pattern itself: a seeded change that rejects a long input before
    # parsing it leaves another — equally coherent — object behind and made C12 report a broken correspondence.)
    pat = []
    for l in range(len(ge)):
        bad = ge[l] != "-"
        if not bad:
            pat.append(True)
        else:
            pat.append((l >= len(enc) or not enc[l].endswith("|-")) and (l >= len(s) or s[l] == judge.PZERO))
    return (tuple(pat),)


def _comparable(prop, g, m):
    """Whether the two sides' projections are about the same thing.  Which strings are accepted is C07/C08's
    statement; the properties about accepted vectors (scores, fields, encoding, views) are compared where both
    sides accept, the one about rejections (C11) where both reject.  C12 (never both, never neither; invalid
    objects answer with an error and +0) is compared everywhere, its left-behind-object part where both reject."""
    if any(x.get("_") and x["_"][0] in ("PANIC", "CRASH", "TIMEOUT", "bad-op") for x in (g, m)):
        return True
    rg, rm = g.get("r"), m.get("r")
    if prop in ("C07", "C08"):
        return True
    if prop == "C11":
        return rg == "0" and rm == "0"
    if prop == "C12":
        coh = lambda d: d.get("r") in ("0", "1") and ((d.get("r") == "1") == (d.get("e", "-") == "-"))
        return coh(g) != coh(m) or rg == rm
    return rg == "1" and rm == "1"


def project(prop, op, d):
    """projection of a parsed result line onto what property `prop` is about"""
    if "_" in d and d["_"] and d["_"][0] in ("PANIC", "CRASH", "TIMEOUT", "bad-op"):
        return ("ABNORMAL", d["_"][0])
    L = judge.LV.get(op[1], 0) if len(op) > 1 else 0
    r = d.get("r")
    s = d.get("s")
    if prop == "C01":
        return (r, _idx(s, 0)) if op[0] in ("D3", "S3", "N3") else None
    if prop == "C02":
        return (r, _idx(s, 0), _idx(s, 1)) if op[0] in ("D3", "S3", "N3") else None
    if prop == "C03":
        return (r, _idx(s, 2)) if op[0] in ("D3", "S3", "N3") else None
    if prop == "C04":
        return (r, _idx(s, 0), _idx(s, 1)) if op[0] in ("D2", "S2", "N2") else None
    if prop == "C05":
        return (r, _idx(s, 2)) if op[0] in ("D2", "S2", "N2") else None
    if prop == "C06":
        return (r, s, d.get("sv"), d.get("svn"))
    if prop == "C07":
        return (r,) if op[0] in ("D3", "S3", "N3") else None
    if prop == "C08":
        return (r,) if op[0] in ("D2", "S2", "N2") else None
    if prop == "C09":
        if r != "1":
            return (r,)
        f, fc = d.get("f", "").split(","), d.get("fc", "").split(",")
        if op[0] in ("D2", "N2", "S2"):
            # fields of absent v2 groups are not part of what C09 states
            emp = [e for e in d.get("emp", "").split(",") if e]
            keep = 6 + (3 if len(emp) > 0 and emp[0] == "false" else 0)
            f9, fc9 = f[:6], fc[:6]
            if len(emp) > 0 and emp[0] == "false":
                f9, fc9 = f9 + f[6:9], fc9 + fc[6:9]
            if len(emp) > 1 and emp[1] == "false":
                f9, fc9 = f9 + f[9:14], fc9 + fc[9:14]
            return (r, tuple(f9), d.get("emp"), d.get("fq"))
        return (r, d.get("v"), tuple(f), d.get("fq"))
    if prop == "C10":
        return (r, _idx(d.get("enc"), L), d.get("se"), d.get("rt")) if r == "1" else (r,)
    if prop == "C11":
        return (r, d.get("e"))
    if prop == "C12":
        return (r, d.get("e")) if r == "1" else (r,) + validity_pattern(d)
    if prop == "C13":
        return (r, s)
    if prop == "C14":
        return (r, d.get("pv"), d.get("pw"), d.get("vq")) if r == "1" else (r,)
    return tuple(sorted(d.items(), key=lambda kv: kv[0]))


def spec_op(op, g):
    """the SPEC op that judges op, given the implementation's parsed output"""
    kind = op[0]
    if kind == "RD3":
        return "SPEC3 %s %s" % (op[1], op[3])
    if kind == "RD2":
        kb, kt, ke = judge.v2_tenths(g)
        return "SPEC2 %s %s %s %s %s" % (op[1], op[3], kb, kt, ke)
    if kind in ("D3", "N3"):
        return "SPEC3 %s %s" % (op[1], op[2])
    if kind == "S3":
        return "SPECS3 %s %s" % (op[1], op[2])
    if kind in ("D2", "N2", "S2"):
        kb, kt, ke = judge.v2_tenths(g)
        return "%s %s %s %s %s %s" % ("SPECS2" if kind == "S2" else "SPEC2", op[1], op[2], kb, kt, ke)
    return None


class StreamResult:
    def __init__(self, name):
        self.name = name
        self.n = 0
        self.mismatch = []          # (op, go, model) on the property's projection
        self.violations = []        # (op, msg, go_line, spec_line)
        self.other = {}             # violations of other properties seen (counts)
        self.hist = {}
        self.samples = []
        self.distinct = set()
        self.exhaustive = False


def run_decode_stream(prop, name, ops, exhaustive=False, known=None):
    """ops: list of op lines (D3/S3/N3/D2/S2/N2).  Returns StreamResult."""
    res = StreamResult(name)
    res.exhaustive = exhaustive
    res.n = len(ops)
    if not ops:
        return res
    go, mo = core.run_both(ops)
    gkv = [core.parse_kv(l) for l in go]
    sops = []
    sidx = []
    for i, op in enumerate(ops):
        so = spec_op(op.split(" "), gkv[i])
        if so is not None:
            sidx.append(i)
            sops.append(so)
    sp_lines = core.run_sharded(core.MODEL, sops) if sops else []
    spmap = dict(zip(sidx, sp_lines))
    for i, op in enumerate(ops):
        f = op.split(" ")
        g = gkv[i]
        m = core.parse_kv(mo[i])
        spl = spmap.get(i, "")
        sp = core.parse_kv(spl)
        out = judge.V()
        reuse = f[0] in ("RD3", "RD2")
        if reuse:
            # a decoder object used before: judged as a decode of the second string, but which strings such an object
            # accepts and what it reports on rejection is not specified (C07/C08/C11 speak of constructor results)
            f = [f[0][1:], f[1], f[3]]
        full = f[0] in ("D3", "D2", "N3", "N2")
        jf = judge.judge_v3 if f[0] in ("D3", "S3", "N3") else judge.judge_v2
        jf(f, g, sp, out, full)
        if "C09" in out.by and g.get("f") == m.get("f") and g.get("r") == "1" and m.get("r") == "1":
            # the fields hold the written values (same enumeration integers as the model, whose tables are C20's theorems);
            # only their *printed codes* differ: that is String() of the value types, C20's and C10's statement, not C09's
            pr = ("fields ", "version ") if g.get("v") == m.get("v") else ("fields ",)
            keep = [x for x in out.by["C09"] if not x.startswith(pr)]
            moved = [x for x in out.by["C09"] if x.startswith(pr)]
            if moved:
                out.by.setdefault("C20", []).extend("printed code of a correctly decoded field: " + x for x in moved)
            if keep:
                out.by["C09"] = keep
            else:
                out.by.pop("C09")
        if reuse:
            for p in ("C07", "C08", "C11"):
                out.by.pop(p, None)
            if g.get("r") != "1":
                for p in list(out.by):
                    if p != "C12":
                        out.by.pop(p)
        if prop in FACT_PROPS:
            # properties that relate a result to itself (grid and band, neutrality, temporal <= base): the two sides are
            # compared on those facts, evaluated by the same function, not on the values of the scores (C01-C05's business)
            outm = judge.V()
            jf(f, m, sp, outm, full)
            pg = (g.get("r"), tuple(sorted(out.by.get(prop, []))))
            pm = (m.get("r"), tuple(sorted(outm.by.get(prop, []))))
        else:
            pg = project(prop, f, g)
            pm = project(prop, f, m)
        if pg != pm and _comparable(prop, g, m) and not (reuse and prop in ("C07", "C08", "C11")):
            res.mismatch.append((op, go[i], mo[i]))
        for p, msgs in out.by.items():
            if p == prop:
                for msg in msgs:
                    res.violations.append((op, msg, go[i], spl))
            else:
                res.other[p] = res.other.get(p, 0) + len(msgs)
        # distribution
        key = "%s/%s/%s" % (f[0], f[1] if len(f) > 1 else "", ("ok" if g.get("r") == "1" else g.get("e", "?")))
        res.hist[key] = res.hist.get(key, 0) + 1
        if pg is not None and g.get("r") in ("0", "1"):
            res.distinct.add((f[1] if len(f) > 1 else "", f[2] if len(f) > 2 else ""))
        if len(res.samples) < 3 or (i % max(1, len(ops) // 3) == 0 and len(res.samples) < 6):
            res.samples.append({"op": _readable(op), "impl": go[i][:300], "spec": spl[:200]})
    if prop == "C09":
        _same_tokens_same_object(ops, go, gkv, res)
    return res


def _same_tokens_same_object(ops, go, gkv, res):
    """C09, relational half, decided on the implementation's outputs alone: accepted v3 vectors at the same
    decoder with the same set of Name:Value tokens (any order; optional metrics written as X or omitted)
    must give the same fields, scores and severities"""
    groups = {}
    for i, op in enumerate(ops):
        f = op.split(" ")
        g = gkv[i]
        if f[0] not in ("D3", "N3") or g.get("r") != "1" or len(f) < 3:
            continue
        try:
            toks = core.unhx(f[2]).decode("latin-1").split("/")
        except Exception:
            continue
        key = (f[1], toks[0], frozenset(t for t in toks[1:] if not t.endswith(":X")))
        obs = (g.get("vl"), g.get("f"), g.get("fc"), g.get("s"), g.get("sv"))
        first = groups.setdefault(key, (i, obs))
        if first[1] != obs:
            res.violations.append((ops[first[0]] + "\n" + op, "same tokens as %s (other order / X written or omitted) but a different "
                                   "object or score" % _readable(ops[first[0]]), go[i], go[first[0]]))
    res.hist["token-set classes with >= 2 spellings"] = sum(1 for _ in groups)


def _readable(op):
    if "\n" in op:
        return " || ".join(_readable(o) for o in op.split("\n"))
    f = op.split(" ")
    if len(f) >= 3:
        try:
            f[2] = core.unhx(f[2]).decode("utf-8", "backslashreplace")
        except Exception:
            pass
    return " ".join(f)
