"""Property predicates evaluated on the implementation's output lines against the specification
oracle's lines (lean driver SPEC ops).  Nothing here looks at the model's output: a message from
this module is a failure of the *property* on the *code*, with the op line as the replay."""
import struct

from . import core

SENTINELS = ["NullPointer", "InvalidVector", "NotSupportVer", "NotSupportMetric", "InvalidTemplate",
             "SameMetric", "InvalidValue", "NoBaseMetrics", "NoTemporalMetrics",
             "NoEnvironmentalMetrics", "Misordered"]
PZERO = "0000000000000000"
NZERO = "8000000000000000"
LV = {"B": 0, "T": 1, "E": 2}
N3 = [8, 11, 22]     # number of v3 metrics at levels B, T, E
N2 = [6, 9, 14]


def tenth_bits(k):
    return struct.pack(">d", k / 10.0).hex()


def bits_tenths(h):
    """tenths if the double is (numerically) a multiple of 0.1 in the nearest-double sense"""
    try:
        x = struct.unpack(">d", bytes.fromhex(h))[0]
    except Exception:
        return None
    if x != x or x in (float("inf"), float("-inf")):
        return None
    k = int(round(x * 10))
    if x == 0:
        return 0
    return k if tenth_bits(k) == h else None


class V:
    """collects violations per property for one op"""

    def __init__(self):
        self.by = {}

    def add(self, prop, msg):
        self.by.setdefault(prop, []).append(msg)


def _split(d, key):
    v = d.get(key)
    if v is None:
        return []
    return v.split(",")


def judge_common(ver, op, g, sp, out):
    """ver: 3 or 2; op: the op tokens; g, sp: parsed kv of the Go line and of the SPEC line"""
    L = LV[op[1]]
    r = g.get("r")
    if "_" in g and g["_"] and g["_"][0] in ("PANIC", "CRASH", "TIMEOUT"):
        out.add("C12", "decode did not return normally: %s" % " ".join(g["_"][:6]))
        return
    if r not in ("0", "1"):
        out.add("C12", "decode returned object/error combination %s" % r)
        return
    acc = sp.get("acc")
    if acc not in ("0", "1"):
        return
    accprop = "C07" if ver == 3 else "C08"
    if (r == "1") != (acc == "1"):
        out.add(accprop, "decoder %s a string the grammar %s (error %s)" % (
            "accepted" if r == "1" else "rejected", "rejects" if acc == "0" else "accepts", g.get("e")))
    e = g.get("e", "-")
    if r == "0":
        tags = e.split("+")
        if len(tags) != 1 or tags[0] not in SENTINELS:
            out.add("C11", "error matches %d sentinels (%s)" % (0 if e == "OTHER" else len(tags), e))
        elif acc == "0":
            allowed = [a for a in sp.get("allowed", "").split("+") if a]
            if tags[0] not in allowed:
                out.add("C11", "reported %s but the defects present are {%s}" % (tags[0], ",".join(allowed)))
    else:
        if e != "-":
            out.add("C12", "object returned together with error %s" % e)


def _invalid_levels_v3(g, L):
    """levels l <= L at which the version or a metric of level <= l holds its unknown value"""
    f = _split(g, "f")
    bad = []
    for l in range(L + 1):
        if g.get("v") == "0" or any(x == "0" for x in f[:N3[l]]):
            bad.append(l)
    return bad


def judge_state_v3(op, g, out):
    """C12 clause on objects left behind / fresh: invalid => error and score 0"""
    L = LV[op[1]]
    if "f" not in g:
        return
    s = _split(g, "s")
    ge = _split(g, "ge")
    enc = _split(g, "enc")
    for l in _invalid_levels_v3(g, L):
        if l < len(s) and s[l] != PZERO:
            out.add("C12", "level %d score %s on an object with an unknown metric" % (l, s[l]))
        if l < len(ge) and ge[l] == "-":
            out.add("C12", "level %d GetError() is nil on an object with an unknown metric" % l)
        if l < len(enc) and enc[l].endswith("|-"):
            out.add("C12", "level %d Encode() reports no error on an object with an unknown metric" % l)


def judge_v3(op, g, sp, out, full):
    L = LV[op[1]]
    judge_common(3, op, g, sp, out)
    if g.get("q2", "1") != "1":
        out.add("C15", "repeating the queries on the same object gave different results")
    if "0" in g.get("vq", ""):
        out.add("C14", "a lower-level view gives different results after the higher level was queried, or a view taken before Decode is no longer the object the higher level decoded into: vq=%s" % g.get("vq"))
    if g.get("fq", "1") != "1":
        out.add("C09", "the metric fields read after the object was queried are not the ones read before (they no longer are what the vector says)")
    if full:
        judge_state_v3(op, g, out)
    if g.get("r") != "1" or sp.get("acc") != "1":
        return
    s = _split(g, "s")
    ks = [int(x) for x in _split(sp, "k")]
    svn_g = _split(g, "svn")
    svn_s = _split(sp, "svn")
    props = ["C01", "C02", "C03"]
    for l in range(L + 1):
        if l >= len(s) or l >= len(ks):
            continue
        k = bits_tenths(s[l])
        if k is None or not (0 <= k <= 100) or s[l] == NZERO:
            out.add("C06", "level %d score bits %s are not a tenth in 0.0..10.0" % (l, s[l]))
        if s[l] != tenth_bits(ks[l]):
            out.add(props[l], "level %d score %s, specification %s" % (l, k if k is not None else s[l], ks[l]))
        if k is not None and l < len(svn_g):
            # severity must be the band of the reported score
            band = _band3(k)
            if svn_g[l] != band:
                out.add("C06", "level %d severity %s for score %s (band %s)" % (l, svn_g[l], k, band))
        if l < len(svn_g) and l < len(svn_s) and svn_g[l] != svn_s[l] and s[l] == tenth_bits(ks[l]):
            out.add("C06", "level %d severity %s, specification %s" % (l, svn_g[l], svn_s[l]))
    # C13 relations on the reported scores
    kk = [bits_tenths(x) for x in s]
    if len(kk) >= 2 and None not in kk[:2]:
        if kk[1] > kk[0]:
            out.add("C13", "temporal %s exceeds base %s" % (kk[1], kk[0]))
    toks = _tokens(op)
    if toks is not None:
        tvals = [toks.get(n, "X") for n in ("E", "RL", "RC")]
        if len(s) >= 2 and all(v == "X" for v in tvals) and s[1] != s[0]:
            out.add("C13", "temporal metrics all Not Defined but temporal %s != base %s" % (kk[1], kk[0]))
        evals = [toks.get(n, "X") for n in ("CR", "IR", "AR", "MAV", "MAC", "MPR", "MUI", "MS", "MC", "MI", "MA")]
        exc = toks.get("CVSS") == "3.1" and toks.get("S") == "C"
        if len(s) >= 3 and all(v == "X" for v in evals) and not exc and s[2] != s[1]:
            out.add("C13", "environmental metrics all Not Defined but environmental %s != temporal %s" % (kk[2], kk[1]))
    if not full:
        return
    if g.get("vl") != sp.get("vl"):
        out.add("C09", "version %s, written %s" % (g.get("vl"), sp.get("vl")))
    if g.get("fc") != sp.get("fc"):
        out.add("C09", "fields %s, written %s" % (g.get("fc"), sp.get("fc")))
    enc = _split(g, "enc")
    canon = _split(sp, "canon")
    for l in range(L + 1):
        if l >= len(enc) or l >= len(canon):
            continue
        want = canon[l] + "|-"
        if enc[l] != want and l == L:
            # (a lower-level view's encoding is compared with an independent lower-level decoder: pv, pw)
            out.add("C10", "level %d encoding %s, canonical %s" % (l, _show(enc[l]), _show(want)))
    if "0" in g.get("se", ""):
        out.add("C10", "String() differs from Encode()")
    if g.get("rt", "1") != "1":
        out.add("C10", "decode(encode(x)) differs from x: %s" % g.get("rt"))
    if "0" in g.get("pv", ""):
        out.add("C14", "view differs from an independent decode of its own encoding: pv=%s" % g.get("pv"))
    if "0" in g.get("pw", ""):
        out.add("C14", "view differs from a lower-level decoder applied to the input's tokens of that level: pw=%s" % g.get("pw"))


def _tokens(op):
    """name -> value of an accepted vector's tokens (first occurrence)"""
    try:
        v = core.unhx(op[2]).decode("latin-1")
    except Exception:
        return None
    d = {}
    for t in v.split("/"):
        n, _, val = t.partition(":")
        d.setdefault(n, val)
    return d


def _band3(k):
    if k <= 0:
        return "None"
    if k <= 39:
        return "Low"
    if k <= 69:
        return "Medium"
    if k <= 89:
        return "High"
    return "Critical"


def _band2(k):
    if k <= 39:
        return "Low"
    if k <= 69:
        return "Medium"
    return "High"


def _show(encpair):
    h, _, e = encpair.partition("|")
    try:
        return core.unhx(h).decode("utf-8", "replace") + "|" + e
    except Exception:
        return encpair


def v2_tenths(g):
    """Go's reported v2 scores as tenths for the SPEC2 op ('x' when absent/off-grid)"""
    s = _split(g, "s")
    r = []
    for i in range(3):
        if i < len(s):
            k = bits_tenths(s[i])
            r.append("x" if k is None else str(k))
        else:
            r.append("x")
    return r


def judge_state_v2(op, g, out):
    L = LV[op[1]]
    if "f" not in g:
        return
    f = _split(g, "f")
    n = g.get("n", "")
    emp = [e for e in _split(g, "emp") if e != ""]
    # is the group present: from the names sets when the hooks expose them, else from IsEmpty()
    if n.startswith("?") or len(n) < 9:
        tpres = len(emp) > 0 and emp[0] == "false"
        epres = len(emp) > 1 and emp[1] == "false"
    else:
        tpres, epres = "1" in n[6:9], "1" in n[9:14]
    s = _split(g, "s")
    ge = _split(g, "ge")
    enc = _split(g, "enc")
    for l in range(L + 1):
        bad = any(x == "0" for x in f[:6])
        if l >= 1 and tpres and any(x == "0" for x in f[6:9]):
            bad = True
        if l >= 2 and epres and any(x == "0" for x in f[9:14]):
            bad = True
        if not bad:
            continue
        if l < len(s) and s[l] != PZERO:
            out.add("C12", "level %d score %s on an object with an unknown metric" % (l, s[l]))
        if l < len(ge) and ge[l] == "-":
            out.add("C12", "level %d GetError() is nil on an object with an unknown metric" % l)
        if l < len(enc) and enc[l].endswith("|-"):
            out.add("C12", "level %d Encode() reports no error on an object with an unknown metric" % l)


def judge_v2(op, g, sp, out, full):
    L = LV[op[1]]
    judge_common(2, op, g, sp, out)
    if g.get("q2", "1") != "1":
        out.add("C15", "repeating the queries on the same object gave different results")
    if "0" in g.get("vq", ""):
        out.add("C14", "a lower-level view gives different results after the higher level was queried, or a view taken before Decode is no longer the object the higher level decoded into: vq=%s" % g.get("vq"))
    if g.get("fq", "1") != "1":
        out.add("C09", "the metric fields read after the object was queried are not the ones read before (they no longer are what the vector says)")
    if full:
        judge_state_v2(op, g, out)
    if g.get("r") == "1" and len(op) == 3 and op[0] in ("D2", "S2", "N2"):
        # C10 (v2): whatever a decoder accepts, the encoding of the object it returns is byte-identical to the input — also when
        # the grammar rejects the input (that the decoder accepted it is C08's violation, that its String() is another text C10's)
        enc0 = _split(g, "enc")
        if L < len(enc0) and enc0[L].endswith("|-") and enc0[L] != op[2] + "|-":
            out.add("C10", "accepted, but the encoding %s is not byte-identical to the input %s" % (_show(enc0[L]), _show(op[2] + "|-")))
    if g.get("r") != "1" or sp.get("acc") != "1":
        return
    s = _split(g, "s")
    svn_g = _split(g, "svn")
    neg = sp.get("neg") == "1"
    grp = sp.get("g", "00")
    oks = [sp.get("okb"), sp.get("okt"), sp.get("oke")]
    props = ["C04", "C04", "C05"]
    names = ["base", "temporal", "environmental"]
    for l in range(L + 1):
        if l >= len(s):
            continue
        k = bits_tenths(s[l])
        exempt = (l == 2 and neg)
        if k is None or (not exempt and not (0 <= k <= 100)):
            out.add("C06", "%s score bits %s are not a tenth in 0.0..10.0" % (names[l], s[l]))
        if oks[l] == "0":
            out.add(props[l], "%s score %s is not the specification's rounding" % (names[l], k))
        if k is not None and l < len(svn_g) and not (exempt and k < 0):
            if 0 <= k and svn_g[l] != _band2(k):
                out.add("C06", "%s severity %s for score %s" % (names[l], svn_g[l], k))
    kk = [bits_tenths(x) for x in s]
    if len(kk) >= 2 and None not in kk[:2] and kk[1] > kk[0]:
        out.add("C13", "temporal %s exceeds base %s" % (kk[1], kk[0]))
    toks = _tokens(op)
    if toks is not None:
        if len(s) >= 2 and all(toks.get(n) == "ND" for n in ("E", "RL", "RC")) and kk[1] != kk[0]:
            out.add("C13", "temporal metrics all Not Defined but temporal %s != base %s" % (kk[1], kk[0]))
        if len(s) >= 3 and toks.get("TD") == "N" and kk[2] != 0:
            out.add("C13", "Target Distribution None but environmental score %s" % kk[2])
    if not full:
        return
    # v2: fields of a group that is not written are not constrained (only IsEmpty is)
    gfc = _split(g, "fc")
    sfc = _split(sp, "fc")
    for i, (a, b) in enumerate(zip(gfc, sfc)):
        present = i < 6 or (i < 9 and grp[0] == "1") or (i >= 9 and grp[1] == "1")
        if present and a != b:
            out.add("C09", "field %d holds %r, written %r" % (i, a, b))
    emp = [e for e in _split(g, "emp") if e != ""]
    want_emp = [("false" if grp[0] == "1" else "true"), ("false" if grp[1] == "1" else "true")]
    for i, e in enumerate(emp):
        if e != want_emp[i]:
            out.add("C09", "IsEmpty() of group %d is %s" % (i + 1, e))
    enc = _split(g, "enc")
    canon = sp.get("canon", "")
    if L < len(enc) and enc[L] != canon + "|-":
        out.add("C10", "encoding %s, input %s" % (_show(enc[L]), _show(canon + "|-")))
    if "0" in g.get("se", ""):
        out.add("C10", "String() differs from Encode()")
    if g.get("rt", "1") != "1":
        out.add("C10", "decode(encode(x)) differs from x: %s" % g.get("rt"))
    if "0" in g.get("pv", ""):
        out.add("C14", "view differs from an independent decode of its own encoding: pv=%s" % g.get("pv"))
    if "0" in g.get("pw", ""):
        out.add("C14", "view differs from a lower-level decoder applied to the input's tokens of that level: pw=%s" % g.get("pw"))
