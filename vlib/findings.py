"""Known findings (committed in known_findings.json, never written at run time).
A violation is *known* only if its specific input is listed with the same observed value."""
from . import core, judge


def _base_key(vecstr):
    toks = vecstr.split("/")
    return "/".join(toks[:6])


def _tuple_key(vecstr):
    toks = vecstr.split("/")
    req = [t for t in toks if t.startswith(("CR:", "IR:", "AR:"))]
    return "/".join(toks[:6]) + "|" + "/".join(req)


def match(prop, viol, known):
    op, msg, impl, spec = viol
    f = op.split(" ")
    if len(f) < 3 or f[0] not in ("D2", "S2", "N2"):
        return None
    try:
        vecstr = core.unhx(f[2]).decode("latin-1")
    except Exception:
        return None
    g = core.parse_kv(impl)
    s = g.get("s", "").split(",")
    for fd in known.get("findings", []):
        if fd.get("property") != prop:
            continue
        idx = fd.get("_index")
        if idx is None:
            idx = {i["key"]: i for i in fd.get("inputs", [])}
            fd["_index"] = idx
        if fd.get("stage") == "base":
            if "base score" not in msg:
                continue
            ent = idx.get(_base_key(vecstr))
            if ent is not None and s and judge.bits_tenths(s[0]) == ent["got"]:
                return fd["id"]
        if fd.get("stage") == "adjusted-base":
            if "environmental score" not in msg:
                continue
            ent = idx.get(_tuple_key(vecstr))
            if ent is None:
                continue
            # the final score must follow from the listed adjusted base score by the specified stages
            kb, kt, ke = judge.v2_tenths(g)
            so = "SPEC2 %s %s %s %s %s %d" % (f[1], f[2], kb, kt, ke, ent["got"])
            out = core.run_sharded(core.MODEL, [so], shards=1)
            if out and core.parse_kv(out[0]).get("okc") == "1":
                return fd["id"]
    return None
