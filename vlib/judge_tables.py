"""C20 judged on the implementation's table dump against the specification tables printed by the
Lean driver (SPECT ops).  Integer values of codes are taken from the implementation's own Get…, so
nothing here depends on the iota numbering."""
import struct
from fractions import Fraction

from . import core


def fbits(fr):
    return struct.pack(">d", float(fr)).hex()


def parse_spect(line):
    """'codes=N,A,L,P w=17/20,31/50,...' -> dict"""
    d = core.parse_kv(line)
    out = {"codes": [c for c in d.get("codes", "").split(",") if c != ""]}
    for k, v in d.items():
        if k.startswith("w"):
            out[k] = [Fraction(x) for x in v.split(",") if x]
    out["base"] = d.get("base")
    return out


def judge(fam, metric, spec, get, val, msgs, aux):
    """get: dict string->int (implementation); val: dict int -> (str, valid, [bits]);
    aux: dict name -> (codes->int) of already processed metrics (for dependent weights)"""
    codes = spec["codes"]
    ints = {}
    for c in codes:
        v = get.get(c)
        if v is None:
            continue
        ints[c] = v
        if v not in val:
            msgs.append("%s %s: code %s parses to %s, outside the dumped range" % (fam, metric, c, v))
            continue
        if val[v][0] != c:
            msgs.append("%s %s: parse(%s)=%d prints as %r" % (fam, metric, c, v, val[v][0]))
        if val[v][1] != "1":
            msgs.append("%s %s: defined value %s (%d) is not valid by the metric's predicate" % (fam, metric, c, v))
    if len(set(ints.values())) != len(ints):
        msgs.append("%s %s: two codes parse to the same value: %s" % (fam, metric, ints))
    unknowns = set()
    for s, v in get.items():
        if s in codes:
            continue
        unknowns.add(v)
        if v in ints.values():
            msgs.append("%s %s: non-code %r parses to a defined value %d" % (fam, metric, s, v))
    if len(unknowns) > 1:
        msgs.append("%s %s: non-codes parse to several values %s" % (fam, metric, sorted(unknowns)))
    for u in unknowns:
        if u in val:
            if val[u][0] != "":
                msgs.append("%s %s: unknown value %d prints as %r" % (fam, metric, u, val[u][0]))
            if val[u][1] != "0":
                msgs.append("%s %s: unknown value %d passes the validity predicate" % (fam, metric, u))
    aux[metric] = ints
    # weights
    def chk(v, idx, want, what):
        bits = val[v][2]
        if idx >= len(bits):
            return
        if bits[idx] != fbits(want) and not (want == 0 and bits[idx] in ("0000000000000000",)):
            msgs.append("%s %s: weight of %s is %s, specification %s" % (fam, metric, what, _f(bits[idx]), want))

    if fam == "T3" and metric == "PR":
        sc = aux.get("S", {})
        for c, v in ints.items():
            i = codes.index(c)
            if v in val:
                if "U" in sc:
                    chk(v, sc["U"], spec["wU"][i], "%s under scope U" % c)
                if "C" in sc:
                    chk(v, sc["C"], spec["wC"][i], "%s under scope C" % c)
    elif fam == "T3" and metric == "S":
        for c, v in ints.items():
            if v in val:
                chk(v, 0, 1 if c == "C" else 0, "IsChanged of %s" % c)
    elif fam == "T3" and metric == "MS":
        sc = aux.get("S", {})
        for c, v in ints.items():
            if v not in val:
                continue
            for bc, bv in sc.items():
                want = (bc == "C") if c == "X" else (c == "C")
                chk(v, bv, 1 if want else 0, "IsChanged of %s over base %s" % (c, bc))
    elif fam == "T3" and metric == "MPR":
        sc = aux.get("S", {})
        ms = aux.get("MS", {})
        pr = aux.get("PR", {})
        prs = aux.get("_spec_PR")
        for c, v in ints.items():
            if v not in val or not prs:
                continue
            for msc, msv in ms.items():
                for scc, scv in sc.items():
                    effs = scc if msc == "X" else msc
                    for prc, prv in pr.items():
                        idx = msv * 20 + scv * 5 + prv
                        if msv > 4 or scv > 3 or prv > 4:
                            continue
                        wc = prc if c == "X" else c
                        want = prs["w" + effs][prs["codes"].index(wc)]
                        chk(v, idx, want, "%s with MS:%s S:%s PR:%s" % (c, msc, scc, prc))
    elif fam == "T3" and spec.get("base"):
        b = spec["base"]
        bints = aux.get(b, {})
        bspec = aux.get("_spec_" + b)
        for c, v in ints.items():
            if v not in val:
                continue
            for bc, bv in bints.items():
                if c == "X":
                    if bspec:
                        chk(v, bv, bspec["w"][bspec["codes"].index(bc)], "X over base %s" % bc)
                else:
                    chk(v, bv, spec["w"][codes.index(c)], "%s over base %s" % (c, bc))
    else:
        for c, v in ints.items():
            if v in val and "w" in spec:
                chk(v, 0, spec["w"][codes.index(c)], c)
    aux["_spec_" + metric] = spec


def _f(bits):
    try:
        return repr(struct.unpack(">d", bytes.fromhex(bits))[0])
    except Exception:
        return bits
