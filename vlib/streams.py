"""Operation streams per property and tier.  Every random choice comes from the run's single Rng."""
import itertools

from . import vec
from .core import hx

LV = ["B", "T", "E"]


def _op(kind, L, s):
    return "%s %s %s" % (kind, LV[L], hx(s))


# ---------------------------------------------------------------- v3 score domains

def base3_all(kind="S3", levels=(0, 1, 2)):
    ops = []
    for ver in vec.VERS3:
        for bt in vec.all_base3_tokens():
            v = vec.v3vec(ver, bt)
            for L in levels:
                ops.append(_op(kind, L, v))
    return ops


def base3_permuted(rng, kind="S3"):
    ops = []
    for ver in vec.VERS3:
        for bt in vec.all_base3_tokens():
            ops.append(_op(kind, rng.below(3), vec.v3vec(ver, rng.shuffle(bt))))
    return ops


def temporal3_all(L=1, kind="S3"):
    ops = []
    tts = list(vec.all_temporal3_tokens())
    for ver in vec.VERS3:
        for bt in vec.all_base3_tokens():
            b = vec.v3vec(ver, bt)
            for tt in tts:
                ops.append("%s %s %s" % (kind, LV[L], hx(b + "/" + "/".join(tt))))
    return ops


def temporal3_omitted(rng, n, kind="S3"):
    """explicit X replaced by omission, random subset, random decoder T/E"""
    ops = []
    for _ in range(n):
        bt = vec.toks(vec.V3B, vec.rand_vals(rng, vec.V3B))
        tt = []
        for m in vec.V3T:
            v = rng.choice(m[2])
            if v == "X" and rng.chance(1, 2):
                continue
            if rng.chance(1, 6):
                continue
            tt.append("%s:%s" % (m[0], v))
        ops.append(_op(kind, 1 + rng.below(2), vec.v3vec(rng.choice(vec.VERS3), rng.shuffle(bt + tt))))
    return ops


ENV_REQ3 = ["X", "H", "L"]          # distinct weights (M = X = 1)


def env3_effective(req_codes=ENV_REQ3, kind="S3"):
    """the complete effective-metric domain: every Modified metric explicit, so the base values
    are irrelevant except as carriers; temporal all X"""
    ops = []
    base = "AV:P/AC:H/PR:H/UI:R/S:U/C:N/I:N/A:N"
    for ver in vec.VERS3:
        pre = "CVSS:%s/%s" % (ver, base)
        for ms, mav, mac, mpr, mui in itertools.product("UC", "NALP", "LH", "NLH", "NR"):
            ex = "MAV:%s/MAC:%s/MPR:%s/MUI:%s/MS:%s" % (mav, mac, mpr, mui, ms)
            for cr, mc, ir, mi, ar, ma in itertools.product(req_codes, "HLN", req_codes, "HLN", req_codes, "HLN"):
                ops.append("%s E %s" % (kind, hx("%s/%s/CR:%s/MC:%s/IR:%s/MI:%s/AR:%s/MA:%s" % (pre, ex, cr, mc, ir, mi, ar, ma))))
    return ops


def env3_fallback_pairs(rng, contexts, kind="S3"):
    """every (Modified metric value incl. X) x (base value) pair, in random contexts"""
    pairs = [("MAV", "AV"), ("MAC", "AC"), ("MPR", "PR"), ("MUI", "UI"), ("MS", "S"), ("MC", "C"), ("MI", "I"), ("MA", "A")]
    byname = {m[0]: m for m in vec.V3}
    ops = []
    for mod, basen in pairs:
        for mv in byname[mod][2]:
            for bv in byname[basen][2]:
                for _ in range(contexts):
                    vals = {m[0]: rng.choice(m[2]) for m in vec.V3}
                    vals[mod] = mv
                    vals[basen] = bv
                    if mod == "MPR":      # PR weights depend on the effective scope: force all four scope cases
                        vals["MS"] = rng.choice(["X", "U", "C"])
                    t = ["%s:%s" % (m[0], vals[m[0]]) for m in vec.V3 if not (vals[m[0]] == "X" and rng.chance(1, 2))]
                    ops.append("%s E %s" % (kind, hx(vec.v3vec(rng.choice(vec.VERS3), t))))
    return ops


def env3_random(rng, n, kind="S3"):
    return ["%s E %s" % (kind, hx(vec.rand_v3(rng, 2))) for _ in range(n)]


# ---------------------------------------------------------------- v2 score domains

def base2_all(kind="S2", levels=(0, 1, 2)):
    ops = []
    for bt in vec.all_base2_tokens():
        for L in levels:
            ops.append(_op(kind, L, "/".join(bt)))
    return ops


def temporal2_all(kind="S2", L=1):
    ops = []
    tts = list(vec.all_temporal2_tokens())
    for bt in vec.all_base2_tokens():
        b = "/".join(bt)
        for tt in tts:
            ops.append(_op(kind, L, b + "/" + "/".join(tt)))
    return ops


def env2_adjusted_all(kind="S2"):
    """all 729 x 64 (base, CR, IR, AR) tuples with neutral CDP/TD and no temporal group: the
    environmental score then *is* the adjusted base score"""
    ops = []
    req = ["L", "M", "H", "ND"]
    for bt in vec.all_base2_tokens():
        b = "/".join(bt)
        for cr, ir, ar in itertools.product(req, req, req):
            ops.append(_op(kind, 2, "%s/CDP:ND/TD:ND/CR:%s/IR:%s/AR:%s" % (b, cr, ir, ar)))
    return ops


def env2_cdp_td_grid(rng, per, kind="S2"):
    """every CDP x TD pair on vectors covering many adjusted-temporal values"""
    ops = []
    for cdp in vec.V2E[0][2]:
        for td in vec.V2E[1][2]:
            for _ in range(per):
                b = "/".join(vec.toks(vec.V2B, vec.rand_vals(rng, vec.V2B)))
                t = ""
                if rng.chance(1, 2):
                    t = "/" + "/".join(vec.toks(vec.V2T, vec.rand_vals(rng, vec.V2T)))
                r = [rng.choice(vec.V2E[i][2]) for i in (2, 3, 4)]
                ops.append(_op(kind, 2, "%s%s/CDP:%s/TD:%s/CR:%s/IR:%s/AR:%s" % (b, t, cdp, td, r[0], r[1], r[2])))
    return ops


def env2_random(rng, n, kind="S2"):
    ops = []
    for _ in range(n):
        b = "/".join(vec.toks(vec.V2B, vec.rand_vals(rng, vec.V2B)))
        t = "/" + "/".join(vec.toks(vec.V2T, vec.rand_vals(rng, vec.V2T))) if rng.chance(2, 3) else ""
        e = "/" + "/".join(vec.toks(vec.V2E, vec.rand_vals(rng, vec.V2E))) if rng.chance(5, 6) else ""
        ops.append(_op(kind, 2, b + t + e))
    return ops


# ---------------------------------------------------------------- tables (C20)

def far_ints():
    """integers far outside every enumeration: around every power of two up to 2^62 (both signs), and the values a packed
    or truncated key would confuse with a small one (a small value plus a multiple of 2^8, 2^16, 2^32)"""
    out = set()
    for k in range(6, 63):
        for d in range(-2, 7):
            out.add((1 << k) + d)
            out.add(-((1 << k) + d))
    for sh in (8, 16, 24, 32, 48):
        for h in list(range(1, 41)) + [255, 256, 257, 65535]:
            for lo in range(0, 7):
                v = (h << sh) + lo
                if v < (1 << 62):
                    out.add(v)
                    out.add(-v)
    out.update([(1 << 63) - 1, -(1 << 63), (1 << 31) - 1, -(1 << 31), (1 << 32) - 1])
    return sorted(out)



def case_variants(c):
    """every upper/lower-case spelling of a short code or name (PoC, pOC, ... for POC): what a lenient alias table or a
    case-folding comparison would accept"""
    if not c or len(c) > 4 or not c.isalpha():
        return []
    out = [""]
    for ch in c:
        out = [p + x for p in out for x in sorted({ch.lower(), ch.upper()})]
    return [v for v in out if v != c]


def table_ops(rng, nrandom):
    """every Get / String / Value / validity of every metric: integers -3..10, every code that
    occurs anywhere in the library plus case variants, prefixes, padded forms, random strings"""
    ops = []
    strings = set(vec.ALL_CODES) | set(vec.ALL_NAMES)
    for c in list(strings):
        strings.update([c.lower(), c + " ", " " + c, c + c, c[:1], c[:-1], c + "\x00", c.capitalize(), c.swapcase()])
        strings.update(case_variants(c))
    strings.update(["", " ", "X", "ND", "x", "nd", "Not Defined", "0", "1", "unknown", "Unknown", "\xff", "Ｎ", "N\n"])
    # every string of one or two capital letters; every (suffix of a metric name) + (a code of any metric): what a lookup
    # keyed by name and code together would confuse with a real entry
    AZ = "ABCDEFGHIJKLMNOPQRSTUVWXYZ"
    strings.update(AZ)
    strings.update(a + b for a in AZ for b in AZ)
    for nme in vec.ALL_NAMES:
        for k in range(0, len(nme) + 1):
            for c in vec.ALL_CODES:
                strings.add(nme[k:] + c)
                strings.add(c + nme[k:])
    alpha = "ABCDEFGHIJKLMNOPQRSTUVWXYZabcdefghijklmnopqrstuvwxyz0123456789:/. "
    for _ in range(nrandom):
        n = 1 + rng.below(3)
        strings.add("".join(rng.choice(alpha) for _ in range(n)))
    strings = sorted(strings)
    # raw bytes (not necessarily UTF-8): every one-byte string; every code with one bit of one byte flipped (a lookup that
    # masks, folds or truncates a byte maps these onto a real code); a code followed or preceded by a continuation or lead
    # byte; the overlong two-byte encoding of each of its letters
    raws = set(bytes([b]) for b in range(256))
    for c in vec.ALL_CODES:
        cb = c.encode()
        for i in range(len(cb)):
            for bit in range(8):
                raws.add(cb[:i] + bytes([cb[i] ^ (1 << bit)]) + cb[i + 1:])
            raws.add(cb[:i] + bytes([0xC0 | (cb[i] >> 6), 0x80 | (cb[i] & 0x3F)]) + cb[i + 1:])
        for x in (b"\x80", b"\xbf", b"\xc2", b"\xff"):
            raws.add(cb + x)
            raws.add(x + cb)
    raws = sorted(r for r in raws if r not in set(t.encode("utf-8", "surrogateescape") for t in strings))
    FAR = far_ints()
    for fam, ms in (("T3", vec.V3), ("T2", vec.V2)):
        for m in ms:
            for v in list(range(-3, 11)) + FAR:
                ops.append("%s %s val %d" % (fam, m[0], v))
            for s in strings:
                ops.append("%s %s get %s" % (fam, m[0], hx(s)))
            for r in raws:
                ops.append("%s %s get %s" % (fam, m[0], hx(r)))
    for v in list(range(-3, 11)) + FAR:
        ops.append("TV str %d" % v)
    for s in strings + ["CVSS:3.0", "CVSS:3.1", "CVSS:3.2", "CVSS:", "cvss:3.1", "CVSS:3.1:", ":3.1", "3.0", "3.1", "CVSS:2.0", "CVSS:3.10", "CVSS:4.0",
                        # labels that are numerically 3.0 / 3.1 but not the labels themselves
                        "3.00", "3.01", "3.10", "03.0", "03.1", "+3.0", "+3.1", "3.+0", "3.+1", "3.-0", "-3.1", "3.1 ", " 3.1", "3.1.0", "3.1e0",
                        "3,1", "3_1", "0x3.1", "3.１", "３.1", "3..1", ".3.1", "31", "3", "3.", ".1", "3.1\x00", "CVSS:3.01", "CVSS:03.1", "CVSS:+3.1",
                        "CVSS:3.00", "CVSS:3.+1", "CVSS:3.-0"]:
        ops.append("TV get %s" % hx(s))
    return ops


# ---------------------------------------------------------------- parser streams (C07-C12, C14)

def value_variants(codes, val):
    """near-miss values for a metric with the given code list: every concatenation of two of its codes (either order,
    incl. doubling), the concatenation of all of them in the table's and in reverse order, proper prefixes and suffixes
    of multi-letter codes, a code with one letter appended or prepended, mixed case"""
    out = []
    for a in codes:
        for b in codes:
            out.append(a + b)
    out.append("".join(codes))
    out.append("".join(reversed(codes)))
    for c in codes:
        for k in range(1, len(c)):
            out.append(c[:k])
            out.append(c[k:])
        out += [c + "X", "X" + c, c + c[-1], c.lower(), c.capitalize(), c + "\x00", c + " ", c + "/"]
        out += case_variants(c)
    seen = set()
    res = []
    for v in out:
        if v not in seen and v not in codes:
            seen.add(v)
            res.append(v)
    return res


def seeds_v3(rng, n):
    """(level, version, tokens) seed vectors: all three levels, both versions, random omissions;
    every third round of seeds spells out every metric of the level (longest vectors)"""
    out = []
    for i in range(n):
        L = i % 3
        if (i // 3) % 3 == 2:
            ms = vec.V3B + (vec.V3T if L >= 1 else []) + (vec.V3E if L >= 2 else [])
            t = vec.toks(ms, vec.rand_vals(rng, ms))
            if rng.chance(1, 2):
                t = rng.shuffle(t)
            out.append((L, rng.choice(vec.VERS3), t))
            continue
        t = vec.toks(vec.V3B, vec.rand_vals(rng, vec.V3B))
        if L >= 1:
            for m in vec.V3T:
                if rng.chance(2, 3):
                    t.append("%s:%s" % (m[0], rng.choice(m[2])))
        if L >= 2:
            for m in vec.V3E:
                if rng.chance(1, 2):
                    t.append("%s:%s" % (m[0], rng.choice(m[2])))
        if rng.chance(1, 2):
            t = rng.shuffle(t)
        out.append((L, rng.choice(vec.VERS3), t))
    return out


def edits_v3(ver, t, rng, heavy):
    """systematic single edits of one vector; yields strings"""
    pre = "CVSS:" + ver
    def mk(p, tt):
        return "/".join([p] + tt)
    yield mk(pre, t)
    n = len(t)
    for i in range(n):
        yield mk(pre, t[:i] + t[i + 1:])                               # drop token
        yield mk(pre, t[:i + 1] + [t[i]] + t[i + 1:])                  # duplicate adjacent
        yield mk(pre, t + [t[i]])                                      # duplicate at end
        name, _, val = t[i].partition(":")
        yield mk(pre, t + [name + ":" + rng.choice(vec.ALL_CODES)])    # duplicate with another value
        yield mk(pre, t[:i] + ["ZZ:N"] + t[i:])                        # unknown metric name inserted here
        yield mk(pre, t[:i] + [rng.choice(vec.ALL_NAMES) + ":" + rng.choice(vec.ALL_CODES)] + t[i:])
        for c in vec.ALL_CODES:                                        # every code anywhere in the library
            yield mk(pre, t[:i] + [name + ":" + c] + t[i + 1:])
        yield mk(pre, t[:i] + [name + ":" + val.lower()] + t[i + 1:])
        yield mk(pre, t[:i] + [name.lower() + ":" + val] + t[i + 1:])
        codes3 = [m[2] for m in vec.V3 if m[0] == name]
        for vv in (value_variants(codes3[0], val) if codes3 else []):  # near-miss values built from the metric's own codes
            yield mk(pre, t[:i] + [name + ":" + vv] + t[i + 1:])
        for nm in vec.ALL_NAMES:                                       # every name of any level/version
            yield mk(pre, t[:i] + [nm + ":" + val] + t[i + 1:])
        yield mk(pre, t[:i] + [name + val] + t[i + 1:])                # colon removed
        yield mk(pre, t[:i] + [name + "::" + val] + t[i + 1:])
        yield mk(pre, t[:i] + [name + ":" + val + ":"] + t[i + 1:])
        yield mk(pre, t[:i] + [":" + val] + t[i + 1:])
        yield mk(pre, t[:i] + [name + ":"] + t[i + 1:])
        yield mk(pre, t[:i] + [" " + t[i]] + t[i + 1:])
        yield mk(pre, t[:i] + [t[i] + " "] + t[i + 1:])
        yield mk(pre, t[:i] + [""] + t[i:])                            # doubled separator
        if heavy:
            for j in range(i + 1, n):
                tt = list(t)
                tt[i], tt[j] = tt[j], tt[i]
                yield mk(pre, tt)                                      # swap
    yield mk(pre, t) + "/"
    yield "/" + mk(pre, t)
    yield " " + mk(pre, t)
    yield mk(pre, t) + " "
    for a, z in WRAPPERS:
        yield a + mk(pre, t) + z                                 # the whole vector quoted / bracketed, as in advisories
        yield pre + "/" + a + "/".join(t) + z if t else a + pre + z   # ... only the metrics
    yield mk(pre, t) + "\n"
    for p in ["CVSS:3.2", "CVSS:2.0", "CVSS:4.0", "CVSS:3", "CVSS:3.10", "CVSS:", "CVSS", "cvss:" + ver, "CVSS:" + ver + ":", "CVSS" + ver,
              "CVSS::" + ver, ver, ":" + ver, "CVSS: " + ver, "CVSS:" + ver + " ", "", "CVSS:3.1/CVSS:3.0", "(" + pre, "CVSS:unknown",
              "CVSS:3.01", "CVSS:03.1", "CVSS:+3.1", "CVSS:3.00", "CVSS:03.0", "CVSS:3.+1", "CVSS:3.-0", "CVSS:3.1.0", "CVSS:3.1e0", "CVSS:3.10",
              "CVSS:0" + ver, "CVSS:+" + ver, "CVSS:" + ver + "0", "CVSS:" + ver.replace(".", ".0"), "CVSS:" + ver.replace(".", ".+")]:
        yield mk(p, t)
    yield "/".join(t)                                                  # no prefix at all
    yield mk(pre, []) if False else pre                                # prefix only
    s = mk(pre, t)
    for k in range(0, len(s), max(1, len(s) // 24)):                   # character-level edits
        yield s[:k] + s[k + 1:]
        yield s[:k] + "/" + s[k:]
        yield s[:k] + ":" + s[k:]
        yield s[:k] + rng.choice("\x00\xff Xx:/") + s[k + 1:]


LENGTHS = [1, 2, 15, 16, 17, 31, 32, 33, 42, 43, 44, 63, 64, 65, 100, 120, 121, 127, 128, 129, 255, 256, 257, 1000, 4096, 65536]


def unicode_ops(rng, kinds, valid):
    """inputs around length thresholds in bytes and in runes: multi-byte UTF-8 (2, 3 and 4 byte runes), full-width
    spellings of valid vectors, invalid UTF-8, NULs -- alone, after a valid vector, and in place of a value"""
    def wide(t):
        return "".join(chr(ord(c) + 0xFEE0) if "!" <= c <= "~" else c for c in t)
    out = []
    v = valid
    out += [wide(v), wide(v) * 3, v + wide(v), wide(v[: len(v) // 2]) + v[len(v) // 2:]]
    for r in ("\u00e9", "\u3042", "\U0001F600", "\x00", "\uFF0F", "\uFF1A"):
        for k in LENGTHS:
            if k > 4096 and r != "\u3042":
                continue
            out.append(r * k)
            if k <= 1000:
                out.append(v + "/" + r * k)
                out.append(v + r * k)
                out.append(v.rsplit(":", 1)[0] + ":" + r * k)
                out.append(r * k + "/" + v)
    for k in LENGTHS:
        if k <= 4096:
            out.append(b"\xff" * k)
            out.append(b"\xe3\x81" * k)
            out.append(v.encode() + b"/" + b"\xc3" * k)
    ops = []
    for t in out:
        for kind in kinds:
            ops.append(_op(kind, rng.below(3), t))
    return ops


WRAPPERS = [("(", ")"), ("[", "]"), ("{", "}"), ("<", ">"), ('"', '"'), ("'", "'"), ("`", "`"), ("((", "))"), ("\t", "\n"), ("\ufeff", "")]

RAW = [b"\x80", b"\xbf", b"\xc0", b"\xc3", b"\xe2", b"\xe2\x82", b"\xf0\x9f", b"\xfe", b"\xff", b"\xed\xa0\x80", b"\xc0\xaf",
       b"\xef\xbb\xbf", b"\xc2\xa0", b"\xe2\x80\x8b", b"\x00", b"\x7f", b"\r", b"\t", b"\n"]


def byte_edits(valid, rng, step=1):
    """raw-byte edits of a valid vector: bytes that are not valid UTF-8 (lone continuation and lead bytes, truncated
    sequences, overlongs, surrogates), a BOM, no-break and zero-width spaces, control bytes -- inserted at every
    `step`-th position, appended, prepended, and in place of one byte; yields bytes"""
    v = valid.encode()
    for k in range(0, len(v) + 1, step):
        r = rng.choice(RAW)
        yield v[:k] + r + v[k:]
        if k < len(v):
            # the same text with one bit of one byte flipped: bit 7 (a byte outside ASCII that a masked or folded lookup
            # maps back onto the letter) and one of the others
            yield v[:k] + bytes([v[k] ^ 0x80]) + v[k + 1:]
            if rng.chance(1, 2):
                yield v[:k] + bytes([v[k] ^ (1 << rng.below(7))]) + v[k + 1:]
        if k < len(v) and rng.chance(1, 3):
            yield v[:k] + rng.choice(RAW) + v[k + 1:]
    for r in RAW:
        yield v + r
        yield r + v
        k = rng.below(len(v))
        yield v[:k] + r + v[k:]


def parser3_ops(rng, nseeds, heavy, kind="D3", nrandom=2000):
    ops = unicode_ops(rng, (kind, "N3"), vec.rand_v3(rng, 2, perm=False))
    for i in range(max(3, nseeds // 3)):
        L = i % 3
        for t in byte_edits(vec.rand_v3(rng, L, perm=(i % 2 == 1)), rng):
            ops.append(_op(kind, L, t))
            if rng.chance(1, 4):
                ops.append(_op("N3", L, t))
    for L, ver, t in seeds_v3(rng, nseeds):
        for s in edits_v3(ver, t, rng, heavy):
            # offer every string to its own decoder and (thinned) to the others
            ops.append(_op(kind, L, s))
            o = rng.below(3)
            if o != L:
                ops.append(_op(kind, o, s))
    alpha = [chr(c) for c in range(256)]
    frag = ["CVSS:3.1", "CVSS:3.0", "/", ":", "AV:N", "AC:L", "PR:N", "UI:N", "S:U", "C:H", "I:H", "A:H", "E:X", "MS:C", "X", "N", ""]
    for _ in range(nrandom):
        if rng.chance(1, 2):
            s = "".join(rng.choice(alpha) for _ in range(rng.below(40)))
        else:
            s = "".join(rng.choice(frag + ["/"] * 6) for _ in range(rng.below(24)))
        ops.append(_op(kind, rng.below(3), s))
        ops.append(_op("N3", rng.below(3), s))
    for s in ["", "/", "//", ":", "::", "CVSS:3.1", "CVSS:3.1/", "CVSS:3.1//", "/" * 50, ":" * 50, "A:" * 40, "CVSS:3.1" + "/AV:N" * 30]:
        for L in range(3):
            ops.append(_op(kind, L, s))
            ops.append(_op("N3", L, s))
    return ops


def seeds_v2(rng, n):
    out = []
    for i in range(n):
        pat = i % 4
        b = vec.toks(vec.V2B, vec.rand_vals(rng, vec.V2B))
        t = vec.toks(vec.V2T, vec.rand_vals(rng, vec.V2T)) if pat in (1, 3) else []
        e = vec.toks(vec.V2E, vec.rand_vals(rng, vec.V2E)) if pat in (2, 3) else []
        if (i // 4) % 3 == 1:
            # groups in which everything is Not Defined (and their single-token edits: partial all-ND groups, one defined value)
            t = [x.split(":")[0] + ":ND" for x in t]
            e = [x.split(":")[0] + ":ND" for x in e]
        elif (i // 4) % 3 == 2:
            b = vec.toks(vec.V2B, ["L", "H", "M", "N", "N", "N"])       # lowest exploitability, no impact
        out.append((b, t, e))
    return out


def edits_v2(b, t, e, rng, heavy):
    full = b + t + e
    def mk(tt):
        return "/".join(tt)
    yield mk(full)
    n = len(full)
    for i in range(n):
        yield mk(full[:i] + full[i + 1:])
        yield mk(full[:i + 1] + [full[i]] + full[i + 1:])
        yield mk(full + [full[i]])
        name, _, val = full[i].partition(":")
        for c in vec.ALL_CODES:
            yield mk(full[:i] + [name + ":" + c] + full[i + 1:])
        yield mk(full[:i] + [name + ":" + val.lower()] + full[i + 1:])
        yield mk(full[:i] + [name.lower() + ":" + val] + full[i + 1:])
        yield mk(full[:i] + [name.upper() + ":" + val] + full[i + 1:])
        codes2 = [m[2] for m in vec.V2 if m[0] == name]
        for vv in (value_variants(codes2[0], val) if codes2 else []):
            yield mk(full[:i] + [name + ":" + vv] + full[i + 1:])
        for nm in vec.ALL_NAMES:
            yield mk(full[:i] + [nm + ":" + val] + full[i + 1:])
        yield mk(full[:i] + [name + val] + full[i + 1:])
        yield mk(full[:i] + [name + "::" + val] + full[i + 1:])
        yield mk(full[:i] + [name + ":"] + full[i + 1:])
        yield mk(full[:i] + [":" + val] + full[i + 1:])
        yield mk(full[:i] + [" " + full[i]] + full[i + 1:])
        yield mk(full[:i] + [full[i] + " "] + full[i + 1:])
        yield mk(full[:i] + [""] + full[i:])
        for j in range(i + 1, n):
            if heavy or j == i + 1:
                tt = list(full)
                tt[i], tt[j] = tt[j], tt[i]
                yield mk(tt)
    # group-level edits
    yield mk(b + e + t)                   # temporal after environmental
    for k in range(1, len(e)):
        yield mk(b + e[:k] + t + e[k:])   # the whole temporal group inside the environmental one
    for k in range(1, len(b)):
        yield mk(b[:k] + t + b[k:] + e)   # ... inside the base group
        yield mk(b[:k] + e + b[k:])
    yield mk(t + b + e)
    yield mk(e + t + b)
    for g in (t, e):
        for k in range(1, len(g)):
            rest = [x for x in full if x not in g]
            yield mk(b + g[:k] + ([] if g is e else e))        # partial group (prefix)
            yield mk(b + g[k:] + ([] if g is e else e))        # partial group (suffix)
            yield mk(rest + g[:k])
    yield mk(full) + "/"
    yield "/" + mk(full)
    yield " " + mk(full)
    yield mk(full) + " "
    yield "CVSS:2.0/" + mk(full)
    yield "CVSS:3.1/" + mk(full)
    for a, z in WRAPPERS:
        yield a + mk(full) + z                                   # the whole vector quoted / bracketed, as in advisories (NVD: "(AV:N/…)")
    s = mk(full)
    for k in range(0, len(s), max(1, len(s) // 24)):
        yield s[:k] + s[k + 1:]
        yield s[:k] + "/" + s[k:]
        yield s[:k] + ":" + s[k:]
        yield s[:k] + rng.choice("\x00\xff Xx:/") + s[k + 1:]


def parser2_ops(rng, nseeds, heavy, kind="D2", nrandom=2000):
    ops = unicode_ops(rng, (kind, "N2"), vec.rand_v2(rng, 2))
    for i in range(max(3, nseeds // 3)):
        L = i % 3
        for t in byte_edits(vec.rand_v2(rng, L), rng):
            ops.append(_op(kind, L, t))
            if rng.chance(1, 4):
                ops.append(_op("N2", L, t))
    for b, t, e in seeds_v2(rng, nseeds):
        for s in edits_v2(b, t, e, rng, heavy):
            for L in range(3):
                ops.append(_op(kind, L, s))
    alpha = [chr(c) for c in range(256)]
    frag = ["AV:N", "AC:L", "Au:N", "C:P", "I:P", "A:P", "E:F", "RL:OF", "RC:C", "CDP:H", "TD:H", "CR:M", "IR:M", "AR:H", "/", ":", "ND", ""]
    for _ in range(nrandom):
        if rng.chance(1, 2):
            s = "".join(rng.choice(alpha) for _ in range(rng.below(40)))
        else:
            s = "".join(rng.choice(frag + ["/"] * 6) for _ in range(rng.below(24)))
        ops.append(_op(kind, rng.below(3), s))
        ops.append(_op("N2", rng.below(3), s))
    for s in ["", "/", "//", ":", "::", "AV:N", "/" * 50, ":" * 50, "A:" * 40, "AV:N/" * 30]:
        for L in range(3):
            ops.append(_op(kind, L, s))
            ops.append(_op("N2", L, s))
    return ops


def accepted3_ops(rng, n, kind="D3"):
    """well-formed vectors: permutations, omissions, explicit X (C09, C10, C14)"""
    ops = []
    for _ in range(n):
        L = rng.below(3)
        ops.append(_op(kind, L, vec.special_vector(rng, 3, L) if rng.chance(1, 10) else vec.rand_v3(rng, L)))
    return ops


def accepted2_ops(rng, n, kind="D2"):
    ops = []
    for _ in range(n):
        L = rng.below(3)
        ops.append(_op(kind, L, vec.special_vector(rng, 2, L) if rng.chance(1, 10) else vec.rand_v2(rng, L)))
    return ops


def spellings3(rng, n):
    """classes of spellings of one token set at one decoder: canonical order, two random orders, every optional
    metric of the level written as X, a random subset of the X's omitted (C09: all must give the same object)"""
    ops = []
    for _ in range(n):
        L = rng.below(3)
        ver = rng.choice(vec.VERS3)
        if rng.chance(1, 8):
            sv = vec.special_vector(rng, 3, L).split("/")
            ver, given = sv[0][5:], dict(t.split(":") for t in sv[1:])
        else:
            given = {}
            for m in vec.V3:
                if m[1] == 0 or (m[1] <= L and rng.chance(1, 2)):
                    given[m[0]] = rng.choice(m[2])
        canon = ["%s:%s" % (m[0], given[m[0]]) for m in vec.V3 if m[0] in given]
        allx = ["%s:%s" % (m[0], given.get(m[0], "X")) for m in vec.V3 if m[1] <= L]
        some = [t for t in allx if not (t.endswith(":X") and rng.chance(1, 2))]
        for toks in (canon, rng.shuffle(canon), rng.shuffle(canon), allx, rng.shuffle(some)):
            ops.append(_op("D3", L, vec.v3vec(ver, toks)))
    return ops


def omitted_vs_x_all_base3(rng):
    """every base vector of both versions at the temporal and the environmental decoder: nothing optional written,
    every optional metric written as X, and one random optional metric alone written as X, in random positions --
    the three spellings must give one object and one score vector (C09: writing X = omitting)"""
    ops = []
    for ver in vec.VERS3:
        for bt in vec.all_base3_tokens():
            for L in (1, 2):
                opt = [m for m in vec.V3 if 1 <= m[1] <= L]
                ops.append(_op("D3", L, vec.v3vec(ver, bt)))
                ops.append(_op("D3", L, vec.v3vec(ver, bt + ["%s:X" % m[0] for m in opt])))
                one = list(bt)
                one.insert(rng.below(len(one) + 1), "%s:X" % rng.choice(opt)[0])
                ops.append(_op("D3", L, vec.v3vec(ver, one)))
    return ops


def x_vs_omitted3(rng, n):
    """pairs: a vector with explicit X for every optional metric of the level and the same vector
    with a random subset of those X tokens omitted -- both must give identical objects (C09)"""
    ops = []
    for _ in range(n):
        L = 1 + rng.below(2)
        b = vec.toks(vec.V3B, vec.rand_vals(rng, vec.V3B))
        opt = []
        for m in (vec.V3T + (vec.V3E if L == 2 else [])):
            v = rng.choice(m[2]) if rng.chance(1, 2) else "X"
            opt.append((m[0], v))
        ver = rng.choice(vec.VERS3)
        full = b + ["%s:%s" % o for o in opt]
        ops.append(_op("D3", L, vec.v3vec(ver, full)))
        part = b + ["%s:%s" % o for o in opt if not (o[1] == "X" and rng.chance(1, 2))]
        ops.append(_op("D3", L, vec.v3vec(ver, rng.shuffle(part))))
    return ops


def reuse_ops_safe(rng, n):
    """RD3 / RD2 where the first Decode either is accepted (the unchanged library then refuses the second with "same
    metric") or is rejected before it has recorded anything (empty string, other version, no token at all): whatever the
    second Decode then *accepts* must hold exactly what is written in it.  (First decodes that fail half-way leave
    optional metrics behind in the unchanged library; that is recorded in DESIGN.md as outside the quantifier of
    C09/C10/C14 and those pairs are only offered to C12.)"""
    ops = []
    for _ in range(n):
        L = rng.below(3)
        if rng.chance(2, 3):
            first = rng.choice(["", "CVSS:2.0/AV:N", "garbage", "CVSS:3.1", vec.rand_v3(rng, L), vec.rand_v3(rng, L, omit=False),
                                vec.rand_v3(rng, L), "CVSS:3.1/AV:N/AC:L/PR:N/UI:N/S:U/C:H/I:H/A:H/E:U/RL:O/RC:U" if L else vec.rand_v3(rng, 0)])
            second = vec.rand_v3(rng, 0) if rng.chance(1, 2) else vec.rand_v3(rng, L)
            ops.append("RD3 %s %s %s" % (LV[L], hx(first), hx(second)))
        else:
            first = rng.choice(["", "garbage", vec.rand_v2(rng, L), vec.rand_v2(rng, L), "AV:N/AC:L/Au:N/C:P/I:P/A:P/E:F/RL:OF/RC:C" if L else vec.rand_v2(rng, 0)])
            second = vec.rand_v2(rng, 0) if rng.chance(1, 2) else vec.rand_v2(rng, L)
            ops.append("RD2 %s %s %s" % (LV[L], hx(first), hx(second)))
    return ops


def reuse_ops(rng, n):
    """RD3 / RD2: Decode(first) then Decode(second) on one constructor result.  first: strings rejected before anything is
    recorded (empty, bad prefix, other version), strings rejected half-way (a state is left behind), accepted vectors with
    and without optional metrics; second: accepted-looking vectors that share or do not share optional metrics with first"""
    ops = []
    for _ in range(n):
        L = rng.below(3)
        if rng.chance(1, 2):
            v2nd = vec.rand_v3(rng, L)
            base_only = vec.rand_v3(rng, 0)
            k = rng.below(8)
            first = ["", "CVSS:2.0/AV:N", "CVSS:3.1", "garbage", vec.rand_v3(rng, L), vec.rand_v3(rng, L, omit=False),
                     vec.rand_v3(rng, L)[:30], "CVSS:3.1/E:U/RL:O/RC:U/MS:C/CR:H"][k]
            second = base_only if rng.chance(1, 3) else v2nd
            ops.append("RD3 %s %s %s" % (LV[L], hx(first), hx(second)))
        else:
            v2nd = vec.rand_v2(rng, L)
            k = rng.below(7)
            first = ["", "CVSS:2.0/AV:N", "AV:N", vec.rand_v2(rng, L), vec.rand_v2(rng, 2), vec.rand_v2(rng, L)[:20], "E:F/RL:OF/RC:C"][k]
            second = vec.rand_v2(rng, 0) if rng.chance(1, 3) else v2nd
            ops.append("RD2 %s %s %s" % (LV[L], hx(first), hx(second)))
    return ops


def double_edits3(rng, nseeds, per_seed, kind="D3"):
    """two independent single edits applied to one valid vector (a bad value and a foreign name, a duplicate and a malformed
    token, ...): the reported sentinel must still be exactly one and name a defect that is present (C11), whatever the
    order in which the two defects occur"""
    ops = []
    for L, ver, t in seeds_v3(rng, nseeds):
        base = list(t)
        for _ in range(per_seed):
            tt = list(base)
            for _e in range(2):
                i = rng.below(len(tt))
                name, _, val = tt[i].partition(":")
                k = rng.below(9)
                if k == 0:
                    tt[i] = name + ":" + rng.choice(["0", "Q", val.lower(), val + val, ""])
                elif k == 1:
                    tt.insert(i, rng.choice(vec.ALL_NAMES + ["ZZ", "av", "X"]) + ":" + rng.choice(vec.ALL_CODES))
                elif k == 2:
                    tt.insert(rng.below(len(tt) + 1), tt[i])
                elif k == 3:
                    tt[i] = name + val
                elif k == 4:
                    tt[i] = name + "::" + val
                elif k == 5:
                    tt.insert(i, "")
                elif k == 6:
                    del tt[i]
                elif k == 7:
                    tt[i] = name.lower() + ":" + val
                else:
                    tt[i] = name + ":" + val + ":" + val
                if not tt:
                    break
            pre = "CVSS:" + ver if rng.chance(9, 10) else rng.choice(["CVSS:3.2", "CVSS", "cvss:3.1", ""])
            s = "/".join([pre] + tt)
            ops.append(_op(kind, L, s))
            o = rng.below(3)
            if o != L:
                ops.append(_op(kind, o, s))
    return ops


def double_edits2(rng, nseeds, per_seed, kind="D2"):
    ops = []
    for b, t, e in seeds_v2(rng, nseeds):
        base = b + t + e
        for _ in range(per_seed):
            tt = list(base)
            for _e in range(2):
                if not tt:
                    break
                i = rng.below(len(tt))
                name, _, val = tt[i].partition(":")
                k = rng.below(9)
                if k == 0:
                    tt[i] = name + ":" + rng.choice(["0", "Q", val.lower(), val + val, ""])
                elif k == 1:
                    tt.insert(i, rng.choice(vec.ALL_NAMES + ["ZZ", "av"]) + ":" + rng.choice(vec.ALL_CODES))
                elif k == 2:
                    tt.insert(rng.below(len(tt) + 1), tt[i])
                elif k == 3:
                    tt[i] = name + val
                elif k == 4:
                    j = rng.below(len(tt))
                    tt[i], tt[j] = tt[j], tt[i]
                elif k == 5:
                    tt.insert(i, "")
                elif k == 6:
                    del tt[i]
                elif k == 7:
                    tt[i] = name.lower() + ":" + val
                else:
                    tt[i] = name + ":" + val + ":" + val
            s = "/".join(tt)
            for L in range(3):
                ops.append(_op(kind, L, s))
    return ops
