"""Vector vocabularies and generators (generation only: nothing here judges an outcome)."""
import itertools

# (name, level, codes) in specification order; level 0 base, 1 temporal, 2 environmental
V3 = [
    ("AV", 0, ["N", "A", "L", "P"]), ("AC", 0, ["L", "H"]), ("PR", 0, ["N", "L", "H"]), ("UI", 0, ["N", "R"]),
    ("S", 0, ["U", "C"]), ("C", 0, ["H", "L", "N"]), ("I", 0, ["H", "L", "N"]), ("A", 0, ["H", "L", "N"]),
    ("E", 1, ["X", "H", "F", "P", "U"]), ("RL", 1, ["X", "U", "W", "T", "O"]), ("RC", 1, ["X", "C", "R", "U"]),
    ("CR", 2, ["X", "H", "M", "L"]), ("IR", 2, ["X", "H", "M", "L"]), ("AR", 2, ["X", "H", "M", "L"]),
    ("MAV", 2, ["X", "N", "A", "L", "P"]), ("MAC", 2, ["X", "L", "H"]), ("MPR", 2, ["X", "N", "L", "H"]),
    ("MUI", 2, ["X", "N", "R"]), ("MS", 2, ["X", "U", "C"]), ("MC", 2, ["X", "H", "L", "N"]),
    ("MI", 2, ["X", "H", "L", "N"]), ("MA", 2, ["X", "H", "L", "N"]),
]
V2 = [
    ("AV", 0, ["L", "A", "N"]), ("AC", 0, ["H", "M", "L"]), ("Au", 0, ["M", "S", "N"]),
    ("C", 0, ["N", "P", "C"]), ("I", 0, ["N", "P", "C"]), ("A", 0, ["N", "P", "C"]),
    ("E", 1, ["U", "POC", "F", "H", "ND"]), ("RL", 1, ["OF", "TF", "W", "U", "ND"]), ("RC", 1, ["UC", "UR", "C", "ND"]),
    ("CDP", 2, ["N", "L", "LM", "MH", "H", "ND"]), ("TD", 2, ["N", "L", "M", "H", "ND"]),
    ("CR", 2, ["L", "M", "H", "ND"]), ("IR", 2, ["L", "M", "H", "ND"]), ("AR", 2, ["L", "M", "H", "ND"]),
]
LEVELS = ["B", "T", "E"]
VERS3 = ["3.0", "3.1"]

V3B = [m for m in V3 if m[1] == 0]
V3T = [m for m in V3 if m[1] == 1]
V3E = [m for m in V3 if m[1] == 2]
V2B = [m for m in V2 if m[1] == 0]
V2T = [m for m in V2 if m[1] == 1]
V2E = [m for m in V2 if m[1] == 2]

ALL_CODES = sorted({c for m in V3 + V2 for c in m[2]})
ALL_NAMES = sorted({m[0] for m in V3 + V2})


def toks(ms, vals):
    return ["%s:%s" % (m[0], v) for m, v in zip(ms, vals)]


def v3vec(ver, toks_):
    return "/".join(["CVSS:" + ver] + list(toks_))


def all_base3_tokens():
    for vals in itertools.product(*[m[2] for m in V3B]):
        yield toks(V3B, vals)


def all_temporal3_tokens():
    for vals in itertools.product(*[m[2] for m in V3T]):
        yield toks(V3T, vals)


def all_base2_tokens():
    for vals in itertools.product(*[m[2] for m in V2B]):
        yield toks(V2B, vals)


def all_temporal2_tokens():
    for vals in itertools.product(*[m[2] for m in V2T]):
        yield toks(V2T, vals)


def rand_vals(rng, ms):
    return [rng.choice(m[2]) for m in ms]


def rand_v3(rng, level, perm=True, omit=True):
    """a random well-formed v3 vector for a decoder of the given level (0..2)"""
    t = toks(V3B, rand_vals(rng, V3B))
    opt = []
    if level >= 1:
        opt += list(zip(V3T, rand_vals(rng, V3T)))
    if level >= 2:
        opt += list(zip(V3E, rand_vals(rng, V3E)))
    for m, v in opt:
        if omit and rng.chance(1, 2):
            continue
        t.append("%s:%s" % (m[0], v))
    if perm and rng.chance(2, 3):
        t = rng.shuffle(t)
    return v3vec(rng.choice(VERS3), t)


def rand_v2(rng, level):
    t = toks(V2B, rand_vals(rng, V2B))
    if level >= 1 and rng.chance(2, 3):
        t += toks(V2T, rand_vals(rng, V2T))
    if level >= 2 and rng.chance(2, 3):
        t += toks(V2E, rand_vals(rng, V2E))
    return "/".join(t)


def special_vector(rng, ver, L):
    """vectors on rarely taken paths: zero (modified) impact, scope overridden by Modified Scope, capped and
    saturated scores, negative v2 adjusted base, everything Not Defined"""
    if ver == 3:
        b = ["AV:N/AC:L/PR:L/UI:N/S:U/C:H/I:H/A:H", "AV:N/AC:L/PR:N/UI:N/S:C/C:H/I:H/A:H", "AV:P/AC:H/PR:H/UI:R/S:C/C:N/I:N/A:N",
             "AV:L/AC:L/PR:H/UI:N/S:C/C:L/I:N/A:N",
             # changed scope, high impact: v3.0 and v3.1 give different environmental scores for the same metric values
             "AV:N/AC:L/PR:N/UI:R/S:C/C:H/I:H/A:H", "AV:L/AC:H/PR:H/UI:R/S:C/C:H/I:H/A:H", "AV:P/AC:H/PR:L/UI:N/S:C/C:H/I:H/A:L"]
        e = ["", "/MS:C/MC:N/MI:N/MA:N", "/MS:U/MC:N/MI:N/MA:N", "/MS:C", "/MS:U/MPR:H", "/CR:H/IR:H/AR:H/MC:H/MI:H/MA:H",
             "/MAV:X/MAC:X/MPR:X/MUI:X/MS:X/MC:X/MI:X/MA:X/CR:X/IR:X/AR:X", "/MC:N/MI:N/MA:N/MS:X"]
        t = ["", "/E:U/RL:O/RC:U", "/E:X/RL:X/RC:X", "/E:H/RL:U/RC:C"]
        s = "CVSS:%s/%s" % (rng.choice(VERS3), rng.choice(b))
        if L >= 1:
            s += rng.choice(t)
        if L >= 2:
            s += rng.choice(e)
        return s
    b = ["AV:L/AC:H/Au:M/C:N/I:N/A:N", "AV:N/AC:L/Au:N/C:C/I:C/A:C", "AV:L/AC:H/Au:M/C:P/I:N/A:N", "AV:A/AC:L/Au:N/C:N/I:P/A:C"]
    t = ["", "/E:ND/RL:ND/RC:ND", "/E:U/RL:OF/RC:UC", "/E:ND/RL:ND/RC:UC"]
    e = ["", "/CDP:ND/TD:ND/CR:ND/IR:ND/AR:ND", "/CDP:H/TD:N/CR:H/IR:H/AR:H", "/CDP:N/TD:H/CR:L/IR:L/AR:L", "/CDP:LM/TD:M/CR:ND/IR:ND/AR:L"]
    s = rng.choice(b)
    if L >= 1:
        s += rng.choice(t)
    if L >= 2:
        s += rng.choice(e)
    return s


