"""Texts for MANIFEST.json (kept beside the registry)."""
HOOK_COMMITS = ["eeb5880", "54c0dd5"]

_NOTE = ("Trusted: Lean kernel; Spec/* transcription of the FIRST documents; F64.lean as a description of amd64 Go float64 "
         "(mul/add/sub/div and the decimal constants are proved correctly rounded, nearest-even, Proofs/F64Round.lean; the math-package "
         "transcriptions Round/Floor/Min/Pow are validated bit-exactly on the whole domain each run, not verified); harness/driver/check.py. The model is hand-written: "
         "its tie to /repo is the correspondence run of this check (exhaustive where the domain is finite).")
_NOTE_F = (_NOTE + " Second tie for the score properties: go/formulas translates the source text of the score and severity functions "
           "into Lean on every run and Props/Src.lean proves them equal to the model for every object (per-metric Value/IsChanged/IsEmpty/"
           "GetError are primitives of that translation, and go/tables translates those per-metric methods and their map literals too: "
           "Props/SrcTab.lean proves them equal to the model's weight functions for every integer); evidence fields formula_translation and "
           "table_translation say whether that held in the run.")

TEXT = {
    "C01": {
        "level": "Theorem base3_eq_spec: for all 2x2,592 base vectors the model's Base.Score arithmetic (software binary64, Go's pow loop) "
                 "returns the double nearest to the FIRST base equations evaluated in exact rationals; zero-iff and range theorems; kernel-checked "
                 "by staged evaluation (54 stage checks x 48 vectors). The model is tied to /repo by comparing Score() bits on the whole "
                 "domain at all three decoders on every run, and the code's scores are also judged directly against the Lean Spec oracle.",
        "ref": "5 (C01), 3", "note": _NOTE_F,
        "technique": "Lean 4 kernel proof (decide +kernel on staged soft-float/Rat checks) + exhaustive differential correspondence + source-to-Lean translation of the score functions (go/formulas) proved equal to the model"},
    "C02": {
        "level": "Theorem temporal3_eq_spec over all base x temporal vectors via the 101x100-point temporal grid lemma on the rounded base "
                 "score; correspondence enumerates all 518,400 vectors through the temporal decoder.",
        "ref": "5 (C02)", "note": _NOTE_F,
        "technique": "Lean 4 kernel proof (grid lemma) + exhaustive differential correspondence + source-to-Lean translation of the score functions (go/formulas) proved equal to the model"},
    "C03": {
        "level": "Theorem env3_eq_spec over the full ~1.1e12 record domain by symbolic reduction to the effective key and staged kernel "
                 "evaluation on the effective domain; correspondence enumerates the effective-metric domain and all fall-back pairs.",
        "ref": "5 (C03)", "note": _NOTE_F,
        "technique": "Lean 4 kernel proof (reduction lemmas + staged decide +kernel) + exhaustive-effective-domain correspondence + source-to-Lean translation of the score functions (go/formulas) proved equal to the model"},
}
TEXT["C04"] = {
    "level": "The unchanged tree violates the base clause on 22 of 729 vectors (known finding F1: sub-scores rounded to two decimals). "
             "Proved: base2_code_semantics (what the code computes, all 729), base2_partial (the property on the other 707), "
             "base2_known_violate (each listed vector is a real violation), temporal2_eq / temporal2_grid (temporal clause in full, grid "
             "-2.0..10.0). Correspondence: all 73,629 vectors exhaustively; code judged against the Rat specification oracle; failures "
             "outside known_findings.json are violations.",
    "ref": "5 (C04), 6, 9", "note": _NOTE_F,
    "technique": "Lean 4 kernel proof (staged decide +kernel, partial theorem + witnesses) + exhaustive differential correspondence + source-to-Lean translation of the score functions (go/formulas) proved equal to the model"}
TEXT["C05"] = {
    "level": "Known finding F2 (1,194 of 46,656 adjusted-base tuples, same cause as F1). Proved: env2_partial (the full chain "
             "adjusted base -> temporal -> CDP/TD on every vector whose tuple is not listed), env2_known_violate, env2_grid, env2_absent. "
             "Correspondence: all 46,656 tuples exhaustively, every CDP x TD pair, random full vectors.",
    "ref": "5 (C05), 6, 9", "note": _NOTE_F,
    "technique": "Lean 4 kernel proof (staged decide +kernel, partial theorem + witnesses) + exhaustive tuple correspondence + source-to-Lean translation of the score functions (go/formulas) proved equal to the model"}
TEXT["C06"] = {
    "level": "Theorems: every level/version score of the model is tenth k with k in 0..100 (v2 environmental: exception exactly as stated) and "
             "the severity is band k (101-point kernel evaluation of severity()); tenth k is the nearest double to k/10; printing needs "
             "at most one decimal. Correspondence on the exhaustive base domains and seeded environmental vectors.",
    "ref": "5 (C06)", "note": _NOTE_F,
    "technique": "Lean 4 kernel proof (corollaries of C01-C05 + decide +kernel on the grid) + differential correspondence + source-to-Lean translation of the score functions (go/formulas) proved equal to the model"}
TEXT["C13"] = {
    "level": "Theorems: temporal all-X = base (v2, v3), temporal <= base (conjuncts of the temporal grid lemmas), v3 environmental all-X = "
             "temporal except (3.1, scope changed) with a witness that the exception is real, v2 TD:N => 0 on every vector.",
    "ref": "5 (C13)", "note": _NOTE_F,
    "technique": "Lean 4 kernel proof (grid lemma conjuncts, symbolic reduction) + exhaustive differential correspondence + source-to-Lean translation of the score functions (go/formulas) proved equal to the model"}
TEXT["C20"] = {
    "level": "Theorems on the model's tables: Get/String inverse on every code of every metric (v3_tables_ok, v2_tables_ok), every other string "
             "parses to 0 and every other integer prints as empty (get_other / str_other, for ALL strings and integers), validity separates, "
             "code sets = specification's, weights = specification's exact decimals correctly rounded (incl. scope-dependent PR and Modified "
             "fall-backs), version labels. Translation tie: go/tables turns the enumerations, every map literal and the body of every GetXxx / "
             "String / Value / IsUnknown / IsValid / IsDefined / IsChanged into Lean on every run; Props/SrcTab.lean proves each equal to the "
             "model's function for ALL strings and ALL integers, and that the codes of every table searched by a range loop are pairwise "
             "different (so Go's unspecified iteration order cannot matter). Correspondence: exhaustive dump of all 36 metric types and both "
             "version types.",
    "ref": "5 (C20), 2", "note": _NOTE + " go/tables (its reading of Go statements and literals) is trusted; the correspondence is the independent check of it.",
    "technique": "Lean 4 proof (decide on tables + generic find? lemmas) + exhaustive table-dump correspondence + source-to-Lean translation of the enumerations, map literals and per-metric functions (go/tables) proved equal to the model for all strings and integers"}
_PNOTE = ("Trusted: Lean kernel; Spec/Grammar*.lean as the formal reading of the property; the harness/driver/check.py; the translators go/decoders "
          "and go/tables (go/parser; their reading of Go statements, of errs.Wrap/errs.Is as the wrapped sentinel, and the names-map abstraction "
          "under the proved markSites obligation). The theorem holds for every byte string on the hand-written model; its transfer to /repo is "
          "(a) the translation tie: on every run the source text of the constructors, Decode, decodeOne, GetError, Encode, String, IsEmpty, "
          "GetVersion and of the per-metric parsers/printers is translated into Lean and Props/SrcDec.lean + Props/SrcTab.lean prove it equal to "
          "the model for every object and every byte string (evidence field decoder_translation: proved / not-understood / lost), and "
          "(b) a seeded, systematic but finite correspondence.")
TEXT["C07"] = {
    "level": "Theorem accept3_iff: for every level and EVERY list of bytes the model's decoder accepts iff the string is in the grammar wf3 "
             "(proved by induction over the token list with the core splitOn lemmas and a fold invariant; no bound on length); delegation: the "
             "model's flattened decodeOne equals the literal three-level delegation of the Go types. Correspondence: systematic single-edit "
             "neighbourhoods of seeded vectors (incl. values built from a metric's own codes), random bytes, multi-byte input around length "
             "thresholds; accept/reject compared with model and grammar oracle.",
    "ref": "5 (C07)", "note": _PNOTE, "technique": "Lean 4 proof by induction (all byte strings) + edit-neighbourhood correspondence + source-to-Lean translation of the decoders (go/decoders, go/tables) proved equal to the model for all objects and strings"}
TEXT["C08"] = {
    "level": "Theorem accept2_iff: for every level and every list of bytes the v2 model decoder accepts iff the string is canonical "
             "(canon2); encode2_identity; delegation (literal three-level decodeOne = flattened). Correspondence as C07 with v2 edits (group "
             "reorder, partial groups incl. all-Not-Defined ones, prefixes).",
    "ref": "5 (C08)", "note": _PNOTE, "technique": "Lean 4 proof by induction (all byte strings) + edit-neighbourhood correspondence + source-to-Lean translation of the decoders and encoders (go/decoders, go/tables) proved equal to the model"}
TEXT["C09"] = {
    "level": "Theorems decode3_fields / decode2_fields (every field = value of the written code; unwritten v3 optional = Not Defined; v2 group "
             "emptiness), decode3_perm (any permutation of the tokens gives the identical object), decode3_X_omit, queries depend only on "
             "version and fields. Correspondence: field dumps of seeded accepted vectors against the written tokens; all spellings of one token set "
             "(orders, X written or omitted; exhaustively omitted-vs-X over every base vector at both higher decoders) compared among the "
             "implementation's own results (fields, scores, severities).",
    "ref": "5 (C09)", "note": _PNOTE, "technique": "Lean 4 proof (fold invariant corollaries) + field-dump correspondence + source-to-Lean translation of the decoders (go/decoders, go/tables) proved equal to the model"}
TEXT["C10"] = {
    "level": "Theorems encode3_canonical (= Spec canon3), decode3_encode_decode, encode2_identity, decode2_encode_decode for every accepted "
             "string. Correspondence: Encode/String/re-decode on every accepted string of the streams.",
    "ref": "5 (C10)", "note": _PNOTE, "technique": "Lean 4 proof (splitOn/intercalate round trip) + encode/re-decode correspondence + source-to-Lean translation of the encoders and decoders (go/decoders, go/tables) proved equal to the model"}
TEXT["C11"] = {
    "level": "Theorems err3_sound / err2_sound: for every level and every byte string, whichever sentinel the model's decoder returns, the "
             "corresponding defect predicate (Spec defect3/defect2: malformed prefix or token, other version, repeated metric, unknown code, "
             "name outside the level, missing base metric, incomplete group, misordered) holds of the string; single_defect corollaries. "
             "Correspondence: set of sentinels matching under errors.Is on every rejected string = {model's error} and in the oracle's defect set.",
    "ref": "5 (C11)", "note": _PNOTE, "technique": "Lean 4 proof by induction over the token loop (all byte strings) + sentinel-set correspondence + source-to-Lean translation of the decoders (go/decoders, go/tables) proved equal to the model"}
TEXT["C12"] = {
    "level": "Theorems: Split never returns an empty slice (the only index the decoders use unguarded); decode is total with outcome = "
             "grammar or a real defect (decode3_total/decode2_total); on nil, fresh, failed-decode or field-reset objects an invalid object "
             "scores +0 and Encode/GetError report an error (v3/v2_invalid_scores_zero, *_unknown_is_invalid). The Go runtime is not "
             "modelled: the correspondence runs every operation under recover, incl. nil receivers and inputs of millions of separators.",
    "ref": "5 (C12)", "note": _PNOTE + " Panics are runtime behaviour: partial in that the model exhibits them only as unreachable match arms.",
    "technique": "Lean 4 proof (totality, invalid => zero) + recover-guarded differential runs + source-to-Lean translation of the decoders/encoders incl. nil receivers, panics as none (go/decoders): no index panic for all objects and strings"}
TEXT["C14"] = {
    "level": "Theorems view3 / view2: for every accepted string and every lower level, the view's encoding is the canonical lower-level vector, "
             "a fresh lower-level decoder accepts it, and score, severity/validity and encoding coincide; view3_tokens / view2_tokens: the same for "
             "the input's own tokens of the level, in the order written. Correspondence: flags pv (fresh lower-level decoder on the view's "
             "encoding), pw (on the input's tokens of that level, built from the text), vq (views unchanged after every query of the "
             "higher level) on every accepted vector of the streams.",
    "ref": "5 (C14)", "note": _PNOTE, "technique": "Lean 4 proof (projection lemmas on the fold invariant) + accessor correspondence"}
TEXT["C17"] = {
    "level": "Report.schema states field by field what each report path must show; theorems wiring / levels / version_field / paths_unique "
             "(every <Metric>Name/<Metric>Value path of the right embedded report shows that metric's title/value and nothing else does; "
             "Vector, scores and severities belong to their own level, the higher level shadowing the lower), score_rendering. The names "
             "tables underneath are regenerated from /repo on every run. Correspondence: every exported string field of every report "
             "(embedded included, by reflection) on an all-values cover, every base vector at the environmental level, x levels x languages "
             "and the no-option default; the schema is evaluated on the scores and severities the implementation itself reports for the object.",
    "ref": "5 (C17)", "note": _NOTE,
    "technique": "Lean 4 proof (decide on the declarative schema) + regenerated names tables + source-to-Lean extraction of the report constructors' field initialisers (go/wiring) proved equal to the schema + field-by-field report correspondence"}
TEXT["C18"] = {
    "level": "The names tables are translated from /repo's Go source into Lean on every run (go/extract); theorems by kernel evaluation over the "
             "regenerated tables: all titles/headers and all defined values (incl. Not Defined) non-empty in English and Japanese, injective per "
             "metric and language, Modified = base names, key sets = defined values; for ALL integers out of range => Unknown/未定義 and for ALL "
             "non-English, non-Japanese tags => English. If the translator does not understand the source the tables are rebuilt from the functions' "
             "behaviour on -130..130 (recorded in the evidence). Correspondence: the 52 functions x integers -3..10 x tags, the tag space around "
             "en/ja (all 2-letter tags, 3-letter neighbours, script/region/private-use/garbage; classified by x/text in the harness), and each "
             "function as the first call in a fresh process.",
    "ref": "5 (C18)", "note": _NOTE,
    "technique": "Lean 4 proof over a model regenerated from the source by a translator + exhaustive behavioural dump"}
TEXT["C19"] = {
    "level": "PARTIAL: text/template is a parameter of the model. Theorems about the export glue: nil / failing reader => invalid-template and no "
             "output; reader = string with the full content; nil report => null-pointer; engine failure => invalid-template and no output; "
             "otherwise exactly the engine's text; never output together with an error. The glue is tied to the source by a translator: "
             "go/glue translates getTempleteString, executeTemplate and the six ExportWith/ExportWithString methods statement by statement "
             "(io.Copy, Parse, Execute as parameters; a panic is none) and Props/SrcGlue.lean proves them equal to the model's glue for every "
             "engine, receiver, reader and text. The fidelity to text/template is checked by the "
             "harness calling text/template directly on the same report for generated valid and invalid templates, long templates around buffer "
             "sizes, repeated template texts, short-reading / failing / nil readers, and readers read only after further exports.",
    "ref": "5 (C19)", "note": _NOTE + " text/template is trusted as the oracle, not modelled.",
    "technique": "Lean 4 proof of the glue (engine abstract) + source-to-Lean translation of the export glue (go/glue) proved equal to the model's + differential run against text/template"}
TEXT["C15"] = {
    "level": "Theorems on the object-pool model: every scoring/severity/validity/encoding/string/accessor/report/export operation returns the "
             "object unchanged (queries_are_pure), repetition returns identical results (repeated_queries), what a history returns about an "
             "object depends only on the operations on that object (history_free, by induction over histories), interleaved queries do not "
             "change what the decodes produce (twin). The purity assumption is tied to the source by a translator: go/effects recomputes the write "
             "sets of all exported functions from the SSA form on every run and code_writes_only_in_decode / code_effects_cover_model re-check "
             "that only Decode writes (its receiver) and nothing writes package-level state. Behaviour: random histories in one process compared "
             "on history facts (same operation, same object, no decode in between => same result; same vector => same answers across "
             "histories and across fresh processes in opposite orders) and with a query-free twin.",
    "ref": "5 (C15)", "note": _NOTE,
    "technique": "Lean 4 proof by induction over operation histories + history/twin correspondence"}
TEXT["C16"] = {
    "level": "PARTIAL: data races live in the Go memory model, which is not modelled. Proved on the abstract operations: under the property's "
             "discipline every interleaving returns to each goroutine what sequential execution returns (interleaving_eq_sequential, induction "
             "over schedules with a non-interference invariant), shared objects are never changed. Checked on the code: harness built with "
             "-race, 16 goroutines over shared decoded objects of every level (random histories, export / report / decode storms), results compared "
             "with sequential execution; no_shared_state_written re-checks the regenerated write-set table (go/effects) on every run.",
    "ref": "5 (C16)", "note": _NOTE + " The race detector and the executed schedules stand in for the memory model.",
    "technique": "Lean 4 proof by induction over schedules (non-interference) + race-detector runs compared with sequential execution"}
NOT_YET = {}
