"""Texts for MANIFEST.json (kept beside the registry)."""
HOOK_COMMITS = ["eeb5880"]

_NOTE = ("Trusted: Lean kernel; Spec/* transcription of the FIRST documents; F64.lean as a description of amd64 Go float64 "
         "(validated bit-exactly on the whole domain each run, not verified); harness/driver/check.py. The model is hand-written: "
         "its tie to /repo is the correspondence run of this check (exhaustive where the domain is finite).")

TEXT = {
    "C01": {
        "level": "Theorem base3_eq_spec: for all 2x2,592 base vectors the model's Base.Score arithmetic (software binary64, Go's pow loop) "
                 "returns the double nearest to the FIRST base equations evaluated in exact rationals; zero-iff and range theorems; kernel-checked "
                 "by staged evaluation (54 stage checks x 48 vectors). The model is tied to /repo by comparing Score() bits on the whole "
                 "domain at all three decoders on every run, and the code's scores are also judged directly against the Lean Spec oracle.",
        "ref": "5 (C01), 3", "note": _NOTE,
        "technique": "Lean 4 kernel proof (decide +kernel on staged soft-float/Rat checks) + exhaustive differential correspondence"},
    "C02": {
        "level": "Theorem temporal3_eq_spec over all base x temporal vectors via the 101x100-point temporal grid lemma on the rounded base "
                 "score; correspondence enumerates all 518,400 vectors through the temporal decoder.",
        "ref": "5 (C02)", "note": _NOTE,
        "technique": "Lean 4 kernel proof (grid lemma) + exhaustive differential correspondence"},
    "C03": {
        "level": "Theorem env3_eq_spec over the full ~1.1e12 record domain by symbolic reduction to the effective key and staged kernel "
                 "evaluation on the effective domain; correspondence enumerates the effective-metric domain and all fall-back pairs.",
        "ref": "5 (C03)", "note": _NOTE,
        "technique": "Lean 4 kernel proof (reduction lemmas + staged decide +kernel) + exhaustive-effective-domain correspondence"},
}
NOT_YET = {}
