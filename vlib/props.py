"""The property registry: which Lean modules/theorems are a property's proof obligations, which
streams tie the model to the code, how a run is concluded."""
from . import core, runner, streams as S

TB_COMMON = [
    "Lean 4.33 kernel; axioms of every property theorem as listed under coverage.theorems (allowed: propext, Classical.choice, Quot.sound)",
    "lean/CvssVerif/Spec/*: transcription of the FIRST v2 / v3.0 / v3.1 equations, weight tables and vector grammars",
    "lean/CvssVerif/Basic/F64.lean as a description of amd64 Go float64 arithmetic (unfused), math.Round/Floor/Min/Pow",
    "the correspondence machinery: go/harness, lean/Driver.lean, vlib/*.py (exact comparison of canonical output lines)",
    "hand-written model lean/CvssVerif/Model/*: tied to /repo by the correspondence streams of this run, not by construction",
]


class Outcome:
    def __init__(self):
        self.evaluations = 0
        self.distinct = 0
        self.rule = ""
        self.samples = []
        self.exhaustive = False
        self.stream_info = []
        self.hist = {}
        self.mismatches = 0
        self.mismatch_examples = []
        self.violations = []       # (op, msg, impl_line, spec_line)
        self.other = {}

    def absorb(self, res):
        self.evaluations += res.n
        self.distinct += len(res.distinct)
        self.stream_info.append({"stream": res.name, "ops": res.n, "exhaustive": res.exhaustive,
                                 "mismatches": len(res.mismatch), "violations": len(res.violations)})
        for k, v in res.hist.items():
            self.hist[k] = self.hist.get(k, 0) + v
        self.mismatches += len(res.mismatch)
        for m in res.mismatch[:5]:
            self.mismatch_examples.append({"stream": res.name, "op": m[0], "impl": m[1], "model": m[2]})
        self.violations.extend(res.violations)
        for k, v in res.other.items():
            self.other[k] = self.other.get(k, 0) + v
        self.samples.extend(res.samples[:2])


class DecodeProp:
    """a property decided on streams of decode/score operations"""

    def __init__(self, prop, modules, theorems, stream_fn, rule, assumptions=None, extra_tb=None):
        self.prop = prop
        self.lean_modules = modules
        self.theorems = theorems
        self.stream_fn = stream_fn
        self.rule = rule
        self.assumptions = assumptions or []
        self.trusted_base = TB_COMMON + (extra_tb or [])

    def run(self, tier, rng, seed):
        out = Outcome()
        out.rule = self.rule
        first = None
        for name, ops, exhaustive in self.stream_fn(tier, rng):
            res = runner.run_decode_stream(self.prop, name, ops, exhaustive)
            out.absorb(res)
            if first is None:
                first = exhaustive
        # the first stream of a property is the enumeration of its domain, when that is finite
        out.exhaustive = bool(first)
        return out

    def replay(self, rp):
        out = Outcome()
        out.rule = "replay of recorded operations"
        res = runner.run_decode_stream(self.prop, "replay", rp.get("ops", []), False)
        out.absorb(res)
        return out


def _known_match(prop, viol, known):
    """-> finding id if the violation is a listed known finding"""
    from . import findings
    return findings.match(prop, viol, known)


def conclude(prop, spec, po, outcome, known):
    lines = []
    matched = {}
    unknown = []
    for v in outcome.violations:
        fid = _known_match(prop, v, known)
        if fid:
            matched[fid] = matched.get(fid, 0) + 1
        else:
            unknown.append(v)
    for f in known.get("findings", []):
        if f.get("property") == prop and f.get("id") in matched:
            lines.append("KNOWN-FINDING: property=%s %s: %s (%s; %d listed inputs reproduced in this run)" % (
                prop, f["id"], f.get("what", ""), f.get("site", ""), matched[f["id"]]))
    res = {"lines": lines, "known": matched, "violations": len(unknown), "exit": 0}
    if unknown:
        unknown.sort(key=lambda v: (len(v[0]), v[0]))
        first = unknown[0]
        path = core.write_replay(prop, {
            "property": prop, "kind": "failing-input", "ops": [first[0]],
            "readable": runner._readable(first[0]), "why": first[1], "impl": first[2], "spec": first[3],
            "more": [{"op": runner._readable(v[0]), "why": v[1]} for v in unknown[1:20]],
            "count": len(unknown)})
        lines.append("VIOLATION property=%s replay=%s" % (prop, path))
        res["exit"] = 1
        return res
    if po["broken"] or outcome.mismatches:
        payload = {"property": prop, "kind": "unexplained-break",
                   "broken_obligations": po["broken"],
                   "correspondence_mismatches": outcome.mismatch_examples[:10],
                   "ops": [m["op"] for m in outcome.mismatch_examples[:10]],
                   "note": "the model and the implementation disagree (or a theorem no longer checks) but the "
                           "specification oracle found no input on which the property itself fails"}
        path = core.write_replay(prop, payload)
        lines.append("VIOLATION property=%s replay=%s no-failing-input-found" % (prop, path))
        res["exit"] = 1
        res["violations"] = 1
    return res


# ------------------------------------------------------------------------------------------ registry

def _c01(tier, rng):
    yield ("all 2x2592 base vectors x 3 decoders, canonical order", S.base3_all(), True)
    yield ("all 2x2592 base vectors, random token order, random decoder", S.base3_permuted(rng), False)


def _c02(tier, rng):
    yield ("all 518,400 base x temporal vectors, temporal decoder", S.temporal3_all(1), True)
    if tier == "thorough":
        yield ("all 518,400 base x temporal vectors, environmental decoder", S.temporal3_all(2), True)
    yield ("omitted / explicit X, permuted, T and E decoders", S.temporal3_omitted(rng, 50000 if tier == "quick" else 500000), False)


def _c03(tier, rng):
    if tier == "quick":
        yield ("complete effective-metric domain (2x2x48x729x... CR/IR/AR in {X,H,L}), temporal X", S.env3_effective(), True)
        yield ("all (Modified value x base value) pairs in random contexts", S.env3_fallback_pairs(rng, 20), False)
        yield ("random full environmental vectors", S.env3_random(rng, 100000), False)
    else:
        yield ("complete effective-metric domain with all four requirement codes", S.env3_effective(["X", "H", "M", "L"]), True)
        yield ("all (Modified value x base value) pairs in random contexts", S.env3_fallback_pairs(rng, 200), False)
        yield ("random full environmental vectors", S.env3_random(rng, 2000000), False)


REGISTRY = {}


def _reg(p):
    REGISTRY[p.prop] = p


_reg(DecodeProp(
    "C01", ["CvssVerif.Props.C01"],
    ["CvssVerif.Props.C01.base3_eq_spec", "CvssVerif.Props.C01.base3_range", "CvssVerif.Props.C01.base3_zero_iff",
     "CvssVerif.Props.C01.base3_score_of_object", "CvssVerif.Props.C01.base3_model_zero_iff"],
    _c01,
    "exhaustive enumeration of version x 8 base metrics at each of the three decoders plus one random permutation per "
    "vector; a case is distinct by (decoder, string) and non-trivial when the decoder returned normally",
    assumptions=["go1.23 amd64 without FMA fusion (GOAMD64=v1)"]))

_reg(DecodeProp(
    "C02", ["CvssVerif.Props.C02", "CvssVerif.Props.C01"],
    ["CvssVerif.Props.C02.temporal3_eq_spec", "CvssVerif.Props.C02.temporal3_grid", "CvssVerif.Props.C02.temporal3_score_of_object",
     "CvssVerif.Props.C01.base3_eq_spec", "CvssVerif.Props.C01.base3_range"],
    _c02,
    "exhaustive enumeration of version x base x (E, RL, RC) through the temporal decoder; plus seeded vectors with "
    "omitted / explicit X metrics in random order at the T and E decoders; distinct by (decoder, string)"))

_reg(DecodeProp(
    "C03", ["CvssVerif.Props.C03"],
    ["CvssVerif.Props.C03.env3_eq_spec", "CvssVerif.Props.C03.env3_range", "CvssVerif.Props.C03.env3_score_of_object"],
    _c03,
    "exhaustive enumeration of the effective-metric domain (every Modified metric explicit) with temporal X; all pairs "
    "(Modified value incl. X, base value) in seeded random contexts; seeded random full vectors; distinct by string"))
