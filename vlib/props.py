"""The property registry: which Lean modules/theorems are a property's proof obligations, which
streams tie the model to the code, how a run is concluded."""
from . import core, runner, streams as S

TB_COMMON = [
    "Lean 4.33 kernel; axioms of every property theorem as listed under coverage.theorems (allowed: propext, Classical.choice, Quot.sound)",
    "lean/CvssVerif/Spec/*: transcription of the FIRST v2 / v3.0 / v3.1 equations, weight tables and vector grammars",
    "lean/CvssVerif/Basic/F64.lean as a description of amd64 Go float64 arithmetic (unfused), math.Round/Floor/Min/Pow",
    "the correspondence machinery: go/harness, lean/Driver.lean, vlib/*.py (exact comparison of canonical output lines)",
    "hand-written model lean/CvssVerif/Model/*: tied to /repo by the correspondence streams of this run, not by construction",
]


class Outcome:
    def __init__(self):
        self.evaluations = 0
        self.distinct = 0
        self.rule = ""
        self.samples = []
        self.exhaustive = False
        self.stream_info = []
        self.hist = {}
        self.mismatches = 0
        self.mismatch_examples = []
        self.violations = []       # (op, msg, impl_line, spec_line)
        self.other = {}

    def absorb(self, res):
        self.evaluations += res.n
        self.distinct += len(res.distinct)
        self.stream_info.append({"stream": res.name, "ops": res.n, "exhaustive": res.exhaustive,
                                 "mismatches": len(res.mismatch), "violations": len(res.violations)})
        for k, v in res.hist.items():
            self.hist[k] = self.hist.get(k, 0) + v
        self.mismatches += len(res.mismatch)
        for m in res.mismatch[:5]:
            self.mismatch_examples.append({"stream": res.name, "op": m[0], "impl": m[1], "model": m[2]})
        self.violations.extend(res.violations)
        for k, v in res.other.items():
            self.other[k] = self.other.get(k, 0) + v
        self.samples.extend(res.samples[:2])


class DecodeProp:
    """a property decided on streams of decode/score operations"""

    def __init__(self, prop, modules, theorems, stream_fn, rule, assumptions=None, extra_tb=None):
        self.prop = prop
        self.lean_modules = modules
        self.theorems = theorems
        self.stream_fn = stream_fn
        self.rule = rule
        self.assumptions = assumptions or []
        self.trusted_base = TB_COMMON + (extra_tb or [])

    def run(self, tier, rng, seed):
        out = Outcome()
        out.rule = self.rule
        first = None
        for name, ops, exhaustive in self.stream_fn(tier, rng):
            res = runner.run_decode_stream(self.prop, name, ops, exhaustive)
            out.absorb(res)
            if first is None:
                first = exhaustive
        # the first stream of a property is the enumeration of its domain, when that is finite
        out.exhaustive = bool(first)
        return out

    def replay(self, rp):
        out = Outcome()
        out.rule = "replay of recorded operations"
        res = runner.run_decode_stream(self.prop, "replay", rp.get("ops", []), False)
        out.absorb(res)
        return out


def _known_match(prop, viol, known):
    """-> finding id if the violation is a listed known finding"""
    from . import findings
    return findings.match(prop, viol, known)


def conclude(prop, spec, po, outcome, known):
    lines = []
    matched = {}
    unknown = []
    for v in outcome.violations:
        fid = _known_match(prop, v, known)
        if fid:
            matched[fid] = matched.get(fid, 0) + 1
        else:
            unknown.append(v)
    for f in known.get("findings", []):
        if f.get("property") == prop and f.get("id") in matched:
            lines.append("KNOWN-FINDING: property=%s %s: %s (%s; %d listed inputs reproduced in this run)" % (
                prop, f["id"], f.get("what", ""), f.get("site", ""), matched[f["id"]]))
    res = {"lines": lines, "known": matched, "violations": len(unknown), "exit": 0}
    if unknown:
        unknown.sort(key=lambda v: (len(v[0]), v[0]))
        first = unknown[0]
        path = core.write_replay(prop, {
            "property": prop, "kind": "failing-input", "ops": first[0].split("\n"),
            "readable": runner._readable(first[0]), "why": first[1], "impl": first[2], "spec": first[3],
            "more": [{"op": runner._readable(v[0]), "why": v[1]} for v in unknown[1:20]],
            "count": len(unknown)})
        lines.append("VIOLATION property=%s replay=%s" % (prop, path))
        res["exit"] = 1
        return res
    if po["broken"] or outcome.mismatches:
        payload = {"property": prop, "kind": "unexplained-break",
                   "broken_obligations": po["broken"],
                   "correspondence_mismatches": outcome.mismatch_examples[:10],
                   "ops": [m["op"] for m in outcome.mismatch_examples[:10]],
                   "note": "the model and the implementation disagree (or a theorem no longer checks) but the "
                           "specification oracle found no input on which the property itself fails"}
        path = core.write_replay(prop, payload)
        lines.append("VIOLATION property=%s replay=%s no-failing-input-found" % (prop, path))
        res["exit"] = 1
        res["violations"] = 1
    return res


# ------------------------------------------------------------------------------------------ registry

def _c01(tier, rng):
    yield ("all 2x2592 base vectors x 3 decoders, canonical order", S.base3_all(), True)
    yield ("all 2x2592 base vectors, random token order, random decoder", S.base3_permuted(rng), False)


def _c02(tier, rng):
    yield ("all 518,400 base x temporal vectors, temporal decoder", S.temporal3_all(1), True)
    if tier == "thorough":
        yield ("all 518,400 base x temporal vectors, environmental decoder", S.temporal3_all(2), True)
    yield ("omitted / explicit X, permuted, T and E decoders", S.temporal3_omitted(rng, 50000 if tier == "quick" else 500000), False)


def _c03(tier, rng):
    if tier == "escalated":     # the source text of the formulas changed and is no longer provably the model: wider search
        yield ("complete effective-metric domain with all four requirement codes", S.env3_effective(["X", "H", "M", "L"]), True)
        yield ("all (Modified value x base value) pairs in random contexts", S.env3_fallback_pairs(rng, 100), False)
        yield ("random full environmental vectors", S.env3_random(rng, 600000), False)
    elif tier == "quick":
        yield ("complete effective-metric domain (2x2x48x729x... CR/IR/AR in {X,H,L}), temporal X", S.env3_effective(), True)
        yield ("all (Modified value x base value) pairs in random contexts", S.env3_fallback_pairs(rng, 20), False)
        yield ("random full environmental vectors", S.env3_random(rng, 100000), False)
    else:
        yield ("complete effective-metric domain with all four requirement codes", S.env3_effective(["X", "H", "M", "L"]), True)
        yield ("all (Modified value x base value) pairs in random contexts", S.env3_fallback_pairs(rng, 200), False)
        yield ("random full environmental vectors", S.env3_random(rng, 2000000), False)


def _c04(tier, rng):
    yield ("all 729 base x (100 temporal + absent) vectors, temporal decoder", S.base2_all(levels=(1,)) + S.temporal2_all(), True)
    yield ("all 729 base vectors at the base and environmental decoders", S.base2_all(levels=(0, 2)), True)
    if tier == "thorough":
        yield ("all base x temporal vectors, environmental decoder", S.temporal2_all(L=2), True)


def _c05(tier, rng):
    yield ("all 729 x 64 (base, CR, IR, AR) tuples, neutral CDP/TD, no temporal group", S.env2_adjusted_all(), True)
    yield ("every CDP x TD pair on random carriers", S.env2_cdp_td_grid(rng, {"quick": 60, "escalated": 600}.get(tier, 2000)), False)
    yield ("random full vectors incl. absent groups", S.env2_random(rng, {"quick": 100000, "escalated": 1000000}.get(tier, 3000000)), False)


def _c06(tier, rng):
    yield ("v3 base: all vectors x 3 decoders", S.base3_all(), True)
    yield ("v2 base x temporal: all vectors", S.base2_all(levels=(1,)) + S.temporal2_all(), True)
    yield ("v2 adjusted-base tuples (negative-equation exception)", S.env2_adjusted_all(), True)
    n = {"quick": 60000, "escalated": 400000}.get(tier, 1500000)
    yield ("v3 random environmental vectors", S.env3_random(rng, n), False)
    yield ("v3 omitted/explicit X temporal vectors", S.temporal3_omitted(rng, n // 2), False)
    yield ("v2 random full vectors", S.env2_random(rng, n), False)


def _c13(tier, rng):
    # all-X / all-ND neutrality and temporal <= base, on the finite domains
    ops = []
    from . import vec
    for ver in vec.VERS3:
        for bt in vec.all_base3_tokens():
            b = vec.v3vec(ver, bt)
            ops.append("S3 T " + core.hx(b))                       # temporal all omitted
            ops.append("S3 E " + core.hx(b + "/E:X/RL:X/RC:X"))    # explicit X, environmental all omitted
    yield ("v3: all base vectors with every optional metric Not Defined, T and E decoders", ops, True)
    # environmental metrics all Not Defined (omitted, or a random few written as X) while the temporal ones are defined
    ops_t = []
    tts = list(vec.all_temporal3_tokens())
    envx = [m[0] + ":X" for m in vec.V3E]
    for ver in vec.VERS3:
        for bt in vec.all_base3_tokens():
            b = vec.v3vec(ver, bt)
            for tt in (tts if tier == "thorough" else [rng.choice(tts), rng.choice(tts), ["E:U", "RL:O", "RC:U"]]):
                ex = [x for x in envx if rng.chance(1, 4)]
                ops_t.append("S3 E " + core.hx("/".join([b] + list(tt) + ex)))
    yield ("v3: all base vectors x defined temporal metrics, environmental metrics all Not Defined, E decoder", ops_t, tier == "thorough")
    ops2 = []
    for bt in vec.all_base2_tokens():
        b = "/".join(bt)
        ops2.append("S2 T " + core.hx(b + "/E:ND/RL:ND/RC:ND"))
        for cdp in vec.V2E[0][2]:
            ops2.append("S2 E " + core.hx(b + "/CDP:%s/TD:N/CR:%s/IR:%s/AR:%s" % (cdp, rng.choice(vec.V2E[2][2]), rng.choice(vec.V2E[3][2]), rng.choice(vec.V2E[4][2]))))
    yield ("v2: all base vectors with ND temporal group; TD:N with every CDP", ops2, True)
    yield ("v3 temporal <= base on a quarter of all base x temporal vectors", [o for i, o in enumerate(S.temporal3_all(1)) if (i + rng.below(4)) % 4 == 0] if tier == "quick" else S.temporal3_all(1), tier != "quick")
    yield ("v2 temporal <= base on all base x temporal vectors", S.temporal2_all(), True)


REGISTRY = {}


def _reg(p):
    REGISTRY[p.prop] = p


_reg(DecodeProp(
    "C01", ["CvssVerif.Props.C01", "CvssVerif.Props.E2E"],
    ["CvssVerif.Props.C01.base3_eq_spec", "CvssVerif.Props.C01.base3_range", "CvssVerif.Props.C01.base3_zero_iff",
     "CvssVerif.Props.C01.base3_score_of_object", "CvssVerif.Props.C01.base3_model_zero_iff",
     "CvssVerif.Props.E2E.base_score_of_string"],
    _c01,
    "exhaustive enumeration of version x 8 base metrics at each of the three decoders plus one random permutation per "
    "vector; a case is distinct by (decoder, string) and non-trivial when the decoder returned normally",
    assumptions=["go1.23 amd64 without FMA fusion (GOAMD64=v1)"]))

_reg(DecodeProp(
    "C02", ["CvssVerif.Props.C02", "CvssVerif.Props.C01", "CvssVerif.Props.E2E"],
    ["CvssVerif.Props.C02.temporal3_eq_spec", "CvssVerif.Props.C02.temporal3_grid", "CvssVerif.Props.C02.temporal3_score_of_object",
     "CvssVerif.Props.C01.base3_eq_spec", "CvssVerif.Props.C01.base3_range", "CvssVerif.Props.E2E.temporal_score_of_string"],
    _c02,
    "exhaustive enumeration of version x base x (E, RL, RC) through the temporal decoder; plus seeded vectors with "
    "omitted / explicit X metrics in random order at the T and E decoders; distinct by (decoder, string)"))

_reg(DecodeProp(
    "C03", ["CvssVerif.Props.C03", "CvssVerif.Props.E2E"],
    ["CvssVerif.Props.C03.env3_eq_spec", "CvssVerif.Props.C03.env3_range", "CvssVerif.Props.C03.env3_score_of_object",
     "CvssVerif.Props.E2E.env_scores_of_string"],
    _c03,
    "exhaustive enumeration of the effective-metric domain (every Modified metric explicit) with temporal X; all pairs "
    "(Modified value incl. X, base value) in seeded random contexts; seeded random full vectors; distinct by string"))

_reg(DecodeProp(
    "C04", ["CvssVerif.Props.C04", "CvssVerif.Props.E2E2"],
    ["CvssVerif.Props.E2E2.scores_of_string", "CvssVerif.Props.E2E2.temporal_clause_of_string", "CvssVerif.Props.C04.base2_code_semantics", "CvssVerif.Props.C04.base2_partial", "CvssVerif.Props.C04.base2_known_violate",
     "CvssVerif.Props.C04.base2_violated", "CvssVerif.Props.C04.temporal2_grid", "CvssVerif.Props.C04.temporal2_eq"],
    _c04,
    "exhaustive enumeration of the 729 base vectors x (100 temporal combinations + group absent) at the temporal decoder, and of the "
    "base vectors at the other decoders; distinct by (decoder, string)",
    assumptions=["the full statement is false of the unchanged code on the 22 base vectors of known finding F1 (known_findings.json); "
                 "the theorem claimed for the base clause is base2_partial + base2_code_semantics + base2_known_violate"]))

_reg(DecodeProp(
    "C05", ["CvssVerif.Props.C05", "CvssVerif.Props.E2E2"],
    ["CvssVerif.Props.E2E2.scores_of_string", "CvssVerif.Props.C05.env2_partial", "CvssVerif.Props.C05.env2_known_violate", "CvssVerif.Props.C05.env2_violated",
     "CvssVerif.Props.C05.env2_absent", "CvssVerif.Props.C05.env2_grid"],
    _c05,
    "exhaustive enumeration of the 46,656 (base, CR, IR, AR) tuples with neutral CDP/TD; every (CDP, TD) pair on seeded random carriers; "
    "seeded random full vectors with and without groups; distinct by string",
    assumptions=["the full statement is false of the unchanged code on the 1,194 tuples of known finding F2; a failing vector is accepted as "
                 "known only if its tuple is listed with the same adjusted base score and the rest of the chain follows the specification"]))

_reg(DecodeProp(
    "C06", ["CvssVerif.Props.C06", "CvssVerif.Props.E2E"],
    ["CvssVerif.Props.E2E.env_severities_of_string", "CvssVerif.Props.C06.tenth_nearest", "CvssVerif.Props.C06.tenth_prints_one_decimal", "CvssVerif.Props.C06.sev3_band",
     "CvssVerif.Props.C06.sev2_band", "CvssVerif.Props.C06.v3_base", "CvssVerif.Props.C06.v3_temporal", "CvssVerif.Props.C06.v3_environmental",
     "CvssVerif.Props.C06.v2_base", "CvssVerif.Props.C06.v2_temporal", "CvssVerif.Props.C06.v2_environmental"],
    _c06,
    "every score of the exhaustive base domains (v3 x 3 decoders, v2 base x temporal, v2 adjusted-base tuples) plus seeded random "
    "environmental vectors of both versions: grid membership, range, severity = band of the reported score"))

_reg(DecodeProp(
    "C13", ["CvssVerif.Props.C13"],
    ["CvssVerif.Props.C13.v3_temporal_allX", "CvssVerif.Props.C13.v3_temporal_le_base", "CvssVerif.Props.C13.v3_env_allX",
     "CvssVerif.Props.C13.v3_env_allX_exception", "CvssVerif.Props.C13.v3_env_allX_model", "CvssVerif.Props.C13.v2_temporal",
     "CvssVerif.Props.C13.v2_env_TDN"],
    _c13,
    "all base vectors of both versions with every optional metric Not Defined (omitted and explicit), TD:N with every CDP, and "
    "temporal <= base on the base x temporal products"))


# the rounding core of the software binary64 is verified (Proofs/F64Round.lean): part of every score property's obligations
F64_MODULE = "CvssVerif.Proofs.F64Round"
F64_THEOREMS = ["CvssVerif.F64.rnd_normal", "CvssVerif.F64.rne_core", "CvssVerif.F64.pack_norm", "CvssVerif.F64.pack_carry",
                "CvssVerif.F64.mul_eq_rnd", "CvssVerif.F64.add_same_sign", "CvssVerif.F64.add_opposite_sign", "CvssVerif.F64.sticky_core",
                "CvssVerif.F64.rndRat_normal", "CvssVerif.F64.div_eq_rndRat", "CvssVerif.F64.mul_comm'", "CvssVerif.F64.add_comm'",
                "CvssVerif.F64.round_pos", "CvssVerif.F64.round_small_and_large"]
for _p in ("C01", "C02", "C03", "C04", "C05", "C06", "C13"):
    if _p in REGISTRY:
        REGISTRY[_p].lean_modules = list(REGISTRY[_p].lean_modules) + [F64_MODULE, "CvssVerif.Proofs.F64RoundFn"]
        REGISTRY[_p].theorems = list(REGISTRY[_p].theorems) + F64_THEOREMS


class TablesProp:
    """C20: exhaustive dump of every metric's Get / String / Value / validity"""
    prop = "C20"
    lean_modules = ["CvssVerif.Props.C20"]
    theorems = ["CvssVerif.Props.C20.get_other", "CvssVerif.Props.C20.str_other", "CvssVerif.Props.C20.v3_tables_ok",
                "CvssVerif.Props.C20.v3_codes_are_spec", "CvssVerif.Props.C20.v3_validity", "CvssVerif.Props.C20.v3_weights",
                "CvssVerif.Props.C20.v3_modified_weights", "CvssVerif.Props.C20.version_labels", "CvssVerif.Props.C20.v2_tables_ok",
                "CvssVerif.Props.C20.v2_codes_are_spec", "CvssVerif.Props.C20.v2_unknown_prints_empty",
                "CvssVerif.Props.C20.v2_weights", "CvssVerif.Props.C20.literals_are_decimals"]
    assumptions = ["integers outside -3..10 and strings outside the generated set: covered on the model by get_other / str_other "
                   "(all strings, all integers) and on the code by the shape of a Go map lookup"]
    trusted_base = TB_COMMON

    def run(self, tier, rng, seed):
        from . import judge_tables, vec
        out = Outcome()
        out.rule = ("every exported Get/String/Value/validity of the 22 v3 and 14 v2 metric types and the two version types: integers "
                    "-3..10, every code and name occurring anywhere in the library with case/padding variants, random short strings; "
                    "distinct by op line")
        ops = S.table_ops(rng, 300 if tier == "quick" else 20000)
        go, mo = core.run_both(ops)
        out.evaluations = len(ops)
        out.distinct = len(set(ops))
        out.exhaustive = True
        mism = [(o, a, b) for o, a, b in zip(ops, go, mo) if a != b]
        out.mismatches = len(mism)
        out.mismatch_examples = [{"stream": "tables", "op": m[0], "impl": m[1], "model": m[2]} for m in mism[:10]]
        out.stream_info.append({"stream": "tables", "ops": len(ops), "exhaustive": True, "mismatches": len(mism)})
        # the same look-ups inside one process each, in three orders (as generated, reversed, the two CVSS versions
        # alternating): a table entry must not depend on what the process looked up before
        alt = sorted(range(len(ops)), key=lambda i: (i % 97, ops[i].split(" ")[1:2], ops[i][:2]))
        orders = {"one process, generated order": list(range(len(ops))), "one process, reversed": list(range(len(ops) - 1, -1, -1)),
                  "one process, versions alternating": alt}
        base = dict(zip(ops, go))
        for oname, idx in orders.items():
            oo = [ops[i] for i in idx]
            og = core.run_sharded(core.HARNESS, oo, shards=1)
            bad = [(o, g) for o, g in zip(oo, og) if base.get(o) != g]
            out.stream_info.append({"stream": oname, "ops": len(oo), "exhaustive": True, "mismatches": len(bad)})
            out.evaluations += len(oo)
            for o, g in bad[:5]:
                out.violations.append((o, "the entry depends on what the process looked up before (%s): %s, elsewhere %s"
                                       % (oname, g[:80], (base.get(o) or "")[:80]), g, base.get(o) or ""))
        # judge against the specification tables
        get = {}
        val = {}
        for op, line in zip(ops, go):
            f = op.split(" ")
            d = core.parse_kv(line)
            if f[0] in ("T3", "T2") and len(f) == 4:
                key = (f[0], f[1])
                if f[2] == "get" and "get" in d:
                    s = core.unhx(f[3]).decode("latin-1")
                    get.setdefault(key, {})[s] = int(d["get"])
                elif f[2] == "val" and "str" in d:
                    val.setdefault(key, {})[int(f[3])] = (core.unhx(d["str"]).decode("latin-1"), d.get("valid"), d.get("val", "").split(","))
            if line.startswith(("PANIC", "CRASH", "TIMEOUT", "bad-op")):
                out.violations.append((op, "table operation did not return normally: " + line[:80], line, ""))
        for fam, ms, sop in (("T3", vec.V3, "SPECT3"), ("T2", vec.V2, "SPECT2")):
            names = [m[0] for m in ms]
            sp = core.run_sharded(core.MODEL, ["%s %s" % (sop, n) for n in names], shards=1)
            aux = {}
            order = names
            if fam == "T3":
                order = ["S", "MS", "PR"] + [n for n in names if n not in ("S", "MS", "PR", "MPR")] + ["MPR"]
            spmap = dict(zip(names, sp))
            for n in order:
                msgs = []
                judge_tables.judge(fam, n, judge_tables.parse_spect(spmap[n]), get.get((fam, n), {}), val.get((fam, n), {}), msgs, aux)
                for m in msgs:
                    out.violations.append(("%s %s" % (fam, n), m, "", spmap[n]))
        # version tables
        for op, line in zip(ops, go):
            f = op.split(" ")
            if f[0] != "TV":
                continue
            d = core.parse_kv(line)
            if f[1] == "get":
                s = core.unhx(f[2]).decode("latin-1")
                want_gv = {"CVSS:3.0": "1|-", "CVSS:3.1": "2|-"}.get(s)
                parts = s.split(":")
                if want_gv is None:
                    want_gv = "0|-" if (len(parts) == 2 and parts[0] == "CVSS") else "0|InvalidVector"
                if d.get("gv") != want_gv:
                    out.violations.append((op, "GetVersion(%r) = %s, expected %s" % (s, d.get("gv"), want_gv), line, ""))
                want_num = {"3.0": "1", "3.1": "2"}.get(s, "0")
                if d.get("num") != want_num:
                    out.violations.append((op, "version.Get(%r) = %s, expected %s" % (s, d.get("num"), want_num), line, ""))
            elif f[1] == "str":
                v = int(f[2])
                want = {1: "3.0", 2: "3.1"}.get(v, "unknown")
                for k in ("vstr", "nstr"):
                    got = core.unhx(d.get(k, "-")).decode("latin-1")
                    if got != want:
                        out.violations.append((op, "%s(%d) = %r, expected %r" % (k, v, got, want), line, ""))
        out.samples = [{"op": runner._readable(o), "impl": g[:200]} for o, g in list(zip(ops, go))[:: max(1, len(ops) // 6)]][:6]
        out.hist = {"ops": len(ops)}
        return out

    def replay(self, rp):
        return self.run("quick", core.Rng(1), 1)


_reg(TablesProp())


def _c07(tier, rng):
    heavy = tier == "thorough"
    yield ("systematic single edits of seed vectors (all levels, versions, full and partial), each at its own and another decoder; random bytes; separator storms",
           S.parser3_ops(rng, 18 if tier == "quick" else 300, heavy, nrandom=3000 if tier == "quick" else 200000), False)
    yield ("well-formed vectors: permutations, omissions, explicit X", S.accepted3_ops(rng, 20000 if tier == "quick" else 500000), False)
    yield ("double edits of seed vectors (two independent defects)", S.double_edits3(rng, 9, 200 if tier == "quick" else 3000), False)


_reg(DecodeProp(
    "C07", ["CvssVerif.Props.C07"],
    ["CvssVerif.Props.C07.accept3_iff", "CvssVerif.Props.C07.decode3_outcome", "CvssVerif.Props.C07.delegation"],
    _c07,
    "systematic edit neighbourhood (drop / duplicate / swap token, every code and every name of the library substituted at every position, "
    "case changes, colon and slash insertions and removals, prefix variants, whitespace, character edits) of seeded seed vectors of all "
    "three levels, offered to the seed's decoder and a second one; random byte strings incl. NUL and invalid UTF-8; distinct by (decoder, string)",
    assumptions=["the theorem covers all byte strings on the model; the transfer to the code holds for the strings compared in this run"]))


def _c08(tier, rng):
    heavy = tier == "thorough"
    yield ("systematic edits of canonical v2 vectors (all four group patterns) at all three decoders; group reorderings and partial groups; random bytes",
           S.parser2_ops(rng, 12 if tier == "quick" else 200, heavy, nrandom=3000 if tier == "quick" else 200000), False)
    yield ("canonical vectors of every pattern", S.accepted2_ops(rng, 20000 if tier == "quick" else 500000), False)
    yield ("double edits of canonical vectors", S.double_edits2(rng, 8, 100 if tier == "quick" else 1500), False)


def _c09(tier, rng):
    n = 30000 if tier == "quick" else 600000
    yield ("v3 well-formed vectors: permutations, omissions, explicit X, all decoders", S.accepted3_ops(rng, n), False)
    yield ("v3 explicit-X versus omitted pairs", S.x_vs_omitted3(rng, n // 5), False)
    yield ("v3 classes of spellings of one token set (orders, X written / omitted), compared among themselves", S.spellings3(rng, n // 10), False)
    yield ("every v3 base vector at the temporal and environmental decoder: optional metrics omitted / all written as X / one written as X",
           S.omitted_vs_x_all_base3(rng), True)
    yield ("v2 canonical vectors of every group pattern, all decoders", S.accepted2_ops(rng, n), False)
    yield ("all v3 base vectors, permuted", S.base3_permuted(rng, kind="D3"), False)
    yield ("decoder objects used twice, first use accepted or rejected before anything was recorded", S.reuse_ops_safe(rng, n // 6), False)


def _c10(tier, rng):
    n = 30000 if tier == "quick" else 600000
    yield ("v3 well-formed vectors (encode, String, re-decode)", S.accepted3_ops(rng, n), False)
    yield ("v2 canonical vectors (encode = input, String, re-decode)", S.accepted2_ops(rng, n), False)
    yield ("v3 edit neighbourhood (accepted members)", S.parser3_ops(rng, 6 if tier == "quick" else 60, False, nrandom=200), False)
    yield ("v2 edit neighbourhood incl. group reorder (accepted members must encode to their input)", S.parser2_ops(rng, 8 if tier == "quick" else 80, tier != "quick", nrandom=200), False)
    yield ("every v3 base vector at the temporal and environmental decoders (nothing optional written)", S.base3_all(kind="D3", levels=(1, 2)), True)
    yield ("decoder objects used twice (safe first use)", S.reuse_ops_safe(rng, n // 6), False)


_reg(DecodeProp(
    "C08", ["CvssVerif.Props.C08"], ["CvssVerif.Props.C08.accept2_iff", "CvssVerif.Props.C08.encode2_identity", "CvssVerif.Props.C08.delegation"], _c08,
    "systematic edit neighbourhood of canonical v2 vectors of all four group patterns (drop / duplicate / swap, every code and name, case, "
    "colon/slash edits, group reorder, partial groups, version prefixes, whitespace, character edits) at all three decoders; random bytes",
    assumptions=["the theorem covers all byte strings on the model; the transfer to the code holds for the strings compared in this run"]))

_reg(DecodeProp(
    "C09", ["CvssVerif.Props.C09"],
    ["CvssVerif.Props.C09.decode3_fields", "CvssVerif.Props.C09.decode3_field_codes", "CvssVerif.Props.C09.decode3_perm",
     "CvssVerif.Props.C09.v3_queries_depend_on_fields", "CvssVerif.Props.C09.decode3_X_omit", "CvssVerif.Props.C09.decode2_fields"],
    _c09,
    "seeded well-formed vectors of both versions at every decoder: field dumps (enumeration value and printed code of every field, names "
    "sets, IsEmpty) against the written tokens; explicit-X / omitted pairs; distinct by (decoder, string)"))

_reg(DecodeProp(
    "C10", ["CvssVerif.Props.C10"],
    ["CvssVerif.Props.C10.encode3_canonical", "CvssVerif.Props.C10.decode3_encode_decode", "CvssVerif.Props.C10.encode2_identity",
     "CvssVerif.Props.C10.decode2_encode_decode"],
    _c10,
    "every accepted vector of the streams: Encode() against the specification's canonical string, String() = Encode(), and the flag rt "
    "(re-decoding the encoding gives the same fields, scores and encoding)"))


def _c11(tier, rng):
    heavy = tier == "thorough"
    yield ("v3 single-edit neighbourhood: every metric x every position x each decoder; full vectors with extra tokens",
           S.parser3_ops(rng, 18 if tier == "quick" else 300, heavy, nrandom=2000 if tier == "quick" else 100000), False)
    yield ("v2 single-edit neighbourhood incl. partial groups and reorderings",
           S.parser2_ops(rng, 12 if tier == "quick" else 200, heavy, nrandom=2000 if tier == "quick" else 100000), False)
    yield ("v3 double edits (two independent defects, any order) at the seed's and another decoder",
           S.double_edits3(rng, 12 if tier == "quick" else 200, 300 if tier == "quick" else 1500), False)
    yield ("v2 double edits at all three decoders", S.double_edits2(rng, 8 if tier == "quick" else 150, 150 if tier == "quick" else 800), False)


_reg(DecodeProp(
    "C11", ["CvssVerif.Props.C11"],
    ["CvssVerif.Props.C11.err3_sound", "CvssVerif.Props.C11.err2_sound", "CvssVerif.Props.C11.single_defect3",
     "CvssVerif.Props.C11.single_defect2", "CvssVerif.Props.C11.err3_kinds"],
    _c11,
    "every rejected string of the edit-neighbourhood streams at all six decoders: the set of sentinels matching under errors.Is must be a "
    "singleton, equal to the model's error, and a member of the defect classes the specification oracle finds in the string",
    assumptions=["errors.Is semantics of github.com/goark/errs wrapping"]))


class C12Prop(DecodeProp):
    """adds observers on nil / fresh receivers, field resets and huge inputs to the decode streams"""

    def extra_ops(self, tier, rng):
        from . import vec
        ops = []
        for fam in ("Q3", "Q2"):
            for L in "BTE":
                for kind in ("nil", "fresh"):
                    ops.append("%s %s %s" % (fam, L, kind))
        n = 150 if tier == "quick" else 5000
        for _ in range(n):
            L = rng.below(3)
            v = vec.rand_v3(rng, L)
            ms = ["Ver"] + [m[0] for m in vec.V3 if m[1] <= L]
            for name in ms:
                ops.append("F3 %s %s %s 0" % ("BTE"[L], core.hx(v), name))
            name = rng.choice(ms)
            ops.append("F3 %s %s %s %d" % ("BTE"[L], core.hx(v), name, rng.choice([-1, 6, 7, 99])))
        for _ in range(n):
            L = rng.below(3)
            v = vec.rand_v2(rng, L)
            for m in vec.V2:
                if m[1] <= L:
                    ops.append("F2 %s %s %s 0" % ("BTE"[L], core.hx(v), m[0]))
            ops.append("F2 %s %s %s %d" % ("BTE"[L], core.hx(v), rng.choice([m[0] for m in vec.V2 if m[1] <= L]), rng.choice([-1, 7, 99])))
        # the same overwrites on objects that have already answered every query once (a remembered score or severity must not survive
        # the field it was computed from)
        ops += ["G" + o[1:] for o in ops if o.startswith(("F3 ", "F2 "))]
        big = 200000 if tier == "quick" else 4000000
        for ver, head, units in (("3", "CVSS:3.1", ["/", ":", "/AV:N", "/A:", "/:", "AV:N", "\x00"]), ("2", "", ["/", ":", "AV:N/", "A:", "/:", "\xff"])):
            for u in units:
                for L in "BTE":
                    ops.append("BIG %s %s %s %s %d" % (ver, L, core.hx(head), core.hx(u), big if u in ("/", ":") else big // 10))
        return ops

    def run(self, tier, rng, seed):
        out = DecodeProp.run(self, tier, rng, seed)
        ops = self.extra_ops(tier, rng)
        go, mo = core.run_both(ops)
        nm = 0
        viol = 0
        for op, g, m in zip(ops, go, mo):
            f = op.split(" ")
            if f[0] in ("F3", "F2", "G3", "G2"):
                # objects with one field overwritten: compared on what C12 states (which levels report an error, and
                # score +0 there), not on the scores of the levels that stay valid
                differs = (runner.validity_pattern(core.parse_kv(g)) != runner.validity_pattern(core.parse_kv(m))
                           or g.split(" ")[0] != m.split(" ")[0])
            elif f[0] == "BIG":
                # huge inputs: C12 states that the decoder returns (an object and no error, or no object and an error); *which*
                # error a rejection carries is C11's statement, which strings are accepted C07/C08's
                dg, dm = core.parse_kv(g), core.parse_kv(m)
                coh = lambda d: d.get("r") in ("0", "1") and ((d.get("r") == "1") == (d.get("e", "-") == "-"))
                differs = coh(dg) != coh(dm)
            else:
                differs = core.strip_names(g) != core.strip_names(m)
            if differs:
                nm += 1
                if len(out.mismatch_examples) < 10:
                    out.mismatch_examples.append({"stream": "observers", "op": op, "impl": g, "model": m})
            d = core.parse_kv(g)
            msgs = []
            if g.startswith(("PANIC", "CRASH", "TIMEOUT")):
                msgs.append("operation did not return normally: " + g[:100])
            elif f[0] in ("Q3", "Q2"):
                if d.get("s") != "0000000000000000":
                    msgs.append("score %s on a %s receiver" % (d.get("s"), f[2]))
                if d.get("ge") == "-":
                    msgs.append("GetError() is nil on a %s receiver" % f[2])
                if d.get("enc", "").endswith("|-"):
                    msgs.append("Encode() reports no error on a %s receiver" % f[2])
            elif f[0] in ("F3", "F2", "G3", "G2") and f[4] == "0" and "f" in d:
                v = judge.V()
                if f[0] in ("F3", "G3"):
                    judge.judge_state_v3(f, d, v)
                else:
                    judge.judge_state_v2(f, d, v)
                msgs.extend(v.by.get("C12", []))
                # the reset field is of the queried level: the object must be invalid at its own level
                if f[0] in ("F3", "G3") and d.get("ge", "").split(",")[-1] == "-":
                    msgs.append("object with %s reset to its unknown value passes GetError()" % f[3])
            elif f[0] == "BIG":
                if d.get("r") not in ("0", "1"):
                    msgs.append("huge input: outcome %s" % g[:60])
            for msg in msgs:
                viol += 1
                out.violations.append((op, msg, g, ""))
        out.evaluations += len(ops)
        out.distinct += len(set(ops))
        out.mismatches += nm
        out.stream_info.append({"stream": "observers on nil/fresh receivers, field resets, huge inputs", "ops": len(ops),
                                "exhaustive": False, "mismatches": nm, "violations": viol})
        out.samples.extend([{"op": runner._readable(o), "impl": g[:200]} for o, g in list(zip(ops, go))[:: max(1, len(ops) // 4)]][:4])
        return out


from . import judge  # noqa: E402


def _c12(tier, rng):
    heavy = tier == "thorough"
    yield ("v3 edit neighbourhood + random bytes + separator storms, constructor and nil receivers",
           S.parser3_ops(rng, 12 if tier == "quick" else 200, heavy, nrandom=5000 if tier == "quick" else 300000), False)
    yield ("v2 edit neighbourhood + random bytes, constructor and nil receivers",
           S.parser2_ops(rng, 8 if tier == "quick" else 150, heavy, nrandom=5000 if tier == "quick" else 300000), False)
    yield ("decoder objects used twice", S.reuse_ops(rng, 3000 if tier == "quick" else 100000), False)


_reg(C12Prop(
    "C12", ["CvssVerif.Props.C12"],
    ["CvssVerif.Props.C12.split_nonempty", "CvssVerif.Props.C12.decode3_total", "CvssVerif.Props.C12.decode2_total",
     "CvssVerif.Props.C12.v3_invalid_scores_zero", "CvssVerif.Props.C12.v3_unknown_is_invalid", "CvssVerif.Props.C12.v3_fresh_invalid",
     "CvssVerif.Props.C12.v2_invalid_scores_zero", "CvssVerif.Props.C12.v2_unknown_is_invalid"],
    _c12,
    "every operation runs under recover in the harness: edit neighbourhoods and random byte strings (incl. NUL, invalid UTF-8) at all six "
    "decoders through constructor results and nil receivers; all observers on nil and fresh receivers of the six types; every exported "
    "field of decoded objects reset to its unknown value (and to out-of-range integers); inputs of up to 4M separators",
    assumptions=["the Go runtime (nil maps, slices) is not modelled: a panic shows up as a PANIC line of the harness",
                 "IsEmpty() on a nil v2 receiver dereferences nil but is not among the observers the property lists; not called on nil",
                 "zero-value structs (&Base{}) are not constructor results and are out of scope"]))


def _c14(tier, rng):
    n = 30000 if tier == "quick" else 600000
    ops3 = [o for o in S.accepted3_ops(rng, n) if not o.startswith("D3 B")]
    ops2 = [o for o in S.accepted2_ops(rng, n) if not o.startswith("D2 B")]
    yield ("v3 accepted temporal and environmental vectors: views through BaseMetrics()/TemporalMetrics()", ops3, False)
    yield ("v2 accepted temporal and environmental vectors: views", ops2, False)
    yield ("all v3 base vectors through the T and E decoders", S.base3_all(kind="D3", levels=(1, 2)), True)
    yield ("all v2 base vectors through the T and E decoders", S.base2_all(kind="D2", levels=(1, 2)), True)
    yield ("decoder objects used twice (safe first use): views of what the second decode left", S.reuse_ops_safe(rng, n // 6), False)


_reg(DecodeProp(
    "C14", ["CvssVerif.Props.C14", "CvssVerif.Proofs.Views3"],
    ["CvssVerif.Props.C14.view3", "CvssVerif.Props.C14.view3_encode", "CvssVerif.Props.C14.queries_congr3",
     "CvssVerif.Props.C14.view2", "CvssVerif.Props.C14.queries_congr2",
     "CvssVerif.Props.C14.view3_tokens", "CvssVerif.Props.C14.view2_tokens"],
    _c14,
    "accepted temporal / environmental vectors of both versions: score, severity and encoding obtained through BaseMetrics() and "
    "TemporalMetrics() against (a) the specification's value for the lower-level part and (b) a fresh lower-level decoder applied to the "
    "view's own encoding (flag pv); all base vectors through the higher decoders"))


# ------------------------------------------------------------------------------------------ names, reports, export

TAGS_JUDGED = ["en", "ja", "fr", "und", "zh-Hant", "de"]
TAGS_REGIONAL = ["en-US", "ja-JP"]      # left unspecified by C18: run, recorded, not judged
REPORT_REGIONAL = TAGS_REGIONAL + ["ja-Latn", "en-GB"]   # C17: requested between the judged tags; one language throughout
# languages the library has no names for, in scripts other than Latin (a language matcher tends to treat these differently from
# fr / de): the report must be the English one, every time it is built
TAGS_OTHER_SCRIPT = ["ko", "zh", "ru", "ar", "he", "el", "hi", "th"]


NAMES_SOURCE = "ast"
NAMES_NOTE = ""


def run_extract():
    """regenerate lean/CvssVerif/Generated/Names.lean from /repo (translator tie of C17/C18).
    Primary translator: go/extract (go/parser; understands map literals and the lookup-with-fallback shape of the
    functions; gives tables valid for *all* integers).  If it reports that it did not understand the source (a harmless
    restructuring of the package is enough), the tables are rebuilt from the package's behaviour instead: every exported
    function is called, through the harness, on the integers -130..130 in English and Japanese, and the observed names
    are written in the same format.  The C18 theorems are then re-checked on those tables; what is lost is the claim
    for integers outside the probed range (recorded in the evidence)."""
    global NAMES_SOURCE, NAMES_NOTE
    src = os.path.join(core.VERIF, "go", "extract")
    out = os.path.join(core.BUILD, "extract")
    dst = os.path.join(core.LEAN, "CvssVerif", "Generated", "Names.lean")
    note = ""
    try:
        core.sh(["go", "build", "-o", out, "."], cwd=src, env=core.GOENV, timeout=300)
        p = core.sh([out, core.REPO, dst + ".ast"], timeout=120)
        txt = p.stdout.strip()
        if "problems=0" in txt.replace(" ", "") or txt.endswith("problems=0"):
            new = open(dst + ".ast").read()
            os.remove(dst + ".ast")
            if not os.path.exists(dst) or open(dst).read() != new:
                open(dst, "w").write(new)
            NAMES_SOURCE, NAMES_NOTE = "ast", txt
            return txt
        note = "go/extract did not understand the source: " + txt
        os.remove(dst + ".ast")
    except core.BuildError as e:
        note = "go/extract failed: " + str(e)[-300:]
    _names_from_behaviour(dst)
    NAMES_SOURCE, NAMES_NOTE = "behaviour", note
    return note


def _lean_bytes(b):
    return "[" + ", ".join(str(x) for x in b) + "]"


def _names_from_behaviour(dst):
    from . import vec
    titles = list(NAME_FUNCS_TITLE)
    values = [m[0] + "ValueOf" for m in vec.V3] + ["SeverityValueOf"]
    ops = []
    for fn in titles:
        for tag in ("en", "ja"):
            ops.append("NM %s 0 %s" % (fn, tag))
    rng_v = list(range(-130, 131)) + [v for v in S.far_ints() if abs(v) > 130]
    for fn in values:
        for v in rng_v:
            for tag in ("en", "ja"):
                ops.append("NM %s %d %s" % (fn, v, tag))
    go = core.run_sharded(core.HARNESS, ops, shards=1)
    res = {}
    for op, g in zip(ops, go):
        f = op.split(" ")
        h = core.parse_kv(g).get("name")
        if h is None:
            raise core.BuildError("behavioural names probe: %s -> %s" % (op, g[:100]))
        res[(f[1], int(f[2]), f[3])] = list(core.unhx(h))
    lines = ["/- GENERATED on every run from the *behaviour* of /repo/v3/report/names (the source translator go/extract did not",
             "   understand the source): every exported function called on -130..130 in English and Japanese — do not edit. -/",
             "import CvssVerif.Basic.Bytes", "namespace CvssVerif.Gen.Names", "open CvssVerif", "",
             "abbrev LangTab := List (Nat × Bytes)", ""]
    # the fall-back names: what the value functions answer far outside every range
    fb = (res[("SeverityValueOf", -130, "en")], res[("SeverityValueOf", -130, "ja")])
    tt = [("unknownValueNameMap", fb)] + [("t_" + fn, (res[(fn, 0, "en")], res[(fn, 0, "ja")])) for fn in titles]
    lines.append("def titleTabs : List (String × LangTab) := [")
    lines.append(",\n".join('  ("%s", [(0, %s), (1, %s)])' % (n, _lean_bytes(p[0]), _lean_bytes(p[1])) for n, p in tt))
    lines.append("]\n")
    lines.append("def valueTabs : List (String × List (Int × LangTab)) := [")
    vt = []
    for fn in values:
        ents = []
        far = (res[(fn, -130, "en")], res[(fn, -130, "ja")])
        for v in rng_v:
            pr = (res[(fn, v, "en")], res[(fn, v, "ja")])
            if pr != far:
                ents.append("    (%d, [(0, %s), (1, %s)])" % (v, _lean_bytes(pr[0]), _lean_bytes(pr[1])))
        vt.append('  ("v_%s", [\n%s])' % (fn, ",\n".join(ents)))
    lines.append(",\n".join(vt))
    lines.append("]\n")
    lines.append("def funcs : List (String × Bool × String × String) := [")
    fl = ['  ("%s", true, "v_%s", "unknownValueNameMap")' % (fn, fn) for fn in values] + ['  ("%s", false, "t_%s", "")' % (fn, fn) for fn in titles]
    lines.append(",\n".join(sorted(fl)))
    lines.append("]\n")
    lines.append("def problems : List String := []\n")
    lines.append("end CvssVerif.Gen.Names")
    new = "\n".join(lines) + "\n"
    if not os.path.exists(dst) or open(dst).read() != new:
        open(dst, "w").write(new)


# which translated functions a score property is about (the tie by translation is judged per property on these)
FORMULA_DEFS = {
    "C01": ["F3.roundUp", "F3.Base_Score"],
    "C02": ["F3.roundUp", "F3.Base_Score", "F3.Temporal_Score"],
    "C03": ["F3.roundUp", "F3.Environmental_Score"],
    "C04": ["F2.roundTo1Decimal", "F2.roundTo2Decimal", "F2.Base_Score", "F2.Base_score", "F2.Temporal_Score", "F2.Temporal_score"],
    "C05": ["F2.roundTo1Decimal", "F2.roundTo2Decimal", "F2.Base_Score", "F2.Base_score", "F2.Temporal_score", "F2.Environmental_Score"],
    "C06": ["F3.severity", "F2.severity", "F3.roundUp", "F2.roundTo1Decimal"],
    "C13": ["F3.roundUp", "F3.Temporal_Score", "F3.Environmental_Score", "F2.Temporal_Score", "F2.Temporal_score", "F2.Environmental_Score"],
}
# properties whose quantified domain the correspondence cannot enumerate: there the translation is what makes the tie
# complete, and losing it without an explanation is reported as the brief prescribes (no-failing-input-found)
FORMULA_TIE_REQUIRED = ("C03", "C05")
SRC_MODULE = "CvssVerif.Props.Src"
SRC_THEOREMS = ["v3_source_is_model", "v2_source_is_model", "base3_source", "temporal3_source", "env3_source", "source_scores_of_string", "source_scores_of_string2",
                "severity3_source", "severity2_source"]


THEOREM_DEF = {"roundUp3": "F3.roundUp", "severity3": "F3.severity", "base3": "F3.Base_Score", "temporal3": "F3.Temporal_Score",
               "env3": "F3.Environmental_Score", "roundTo1": "F2.roundTo1Decimal", "roundTo2": "F2.roundTo2Decimal",
               "severity2": "F2.severity", "baseOf2": "F2.Base_score", "base2": "F2.Base_Score", "temporalOf2": "F2.Temporal_score",
               "temporal2": "F2.Temporal_Score", "env2": "F2.Environmental_Score"}


def _split_defs(txt):
    """generated Formulas.lean -> {"F3.roundUp": text, ...}"""
    res, ns, cur, buf = {}, None, None, []
    for line in txt.splitlines():
        if line.startswith("namespace CvssVerif.Gen."):
            ns = line.split(".")[-1]
        if line.startswith("def ") or line.startswith("end "):
            if cur:
                res[cur] = "\n".join(buf).strip()
            cur, buf = None, []
            if line.startswith("def "):
                cur = "%s.%s" % (ns, line.split()[1])
        if cur:
            buf.append(line)
    return res


def run_formulas(prop):
    """regenerate lean/CvssVerif/Generated/Formulas.lean from the text of the score and severity functions of /repo
    (go/formulas) and re-check `Props/Src.lean` (source text = model, for every object).  Returns a dict:
      status   'proved'          the translator understood the source and every equality checks: the theorems of this
                                 property are theorems about the source text;
               'lost-elsewhere'  an equality about a function this property is *not* about no longer checks (so the module
                                 Props/Src.lean as a whole does not build); the ones this property is about do;
               'not-understood'  the source is outside the translator's subset (a harmless restructuring is enough):
                                 the reference translation is put back, the tie of this run is the correspondence alone;
               'lost'            the translator understood the source but the source is no longer provably the model;
      changed  translated functions whose text differs from the reference translation of the pinned tree;
      failed   translated functions whose equality with the model no longer checks;
      relevant those of the failed ones this property is about."""
    src = os.path.join(core.VERIF, "go", "formulas")
    out = os.path.join(core.BUILD, "formulas")
    dst = os.path.join(core.LEAN, "CvssVerif", "Generated", "Formulas.lean")
    ref = open(os.path.join(src, "reference.lean")).read()
    res = {"status": "not-understood", "note": "", "changed": [], "relevant": [], "translator": "go/formulas (go/parser; symbolic execution of the function bodies)"}

    def put(txt):
        if not os.path.exists(dst) or open(dst).read() != txt:
            open(dst, "w").write(txt)
    try:
        core.sh(["go", "build", "-o", out, "."], cwd=src, env=core.GOENV, timeout=300)
        if os.path.exists(dst + ".new"):
            os.remove(dst + ".new")
        p = core.sh([out, core.REPO, dst + ".new", os.path.join(src, "reference.lean")], timeout=120, check=False)
        txt = p.stdout.strip()
        res["note"] = txt[-1500:]
        nu = []
        for line in txt.splitlines():
            if line.startswith("not-understood:"):
                nu = line.split(":", 1)[1].split()
        res["not_understood"] = nu
        if p.returncode == 0 and txt.endswith("written=true") and os.path.exists(dst + ".new"):
            new = open(dst + ".new").read()
            os.remove(dst + ".new")
            put(new)
            a, b = _split_defs(ref), _split_defs(new)
            res["changed"] = sorted(k for k in set(a) | set(b) if a.get(k) != b.get(k))
            res["failed"], res["relevant"] = [], []
            mine = FORMULA_DEFS.get(prop, [])
            ok, log = core.build_lean([SRC_MODULE])
            if ok:
                # a function outside the translator's subset carries the reference text: nothing is claimed about it
                res["status"] = "not-understood" if any(k in mine for k in nu) else "proved"
            else:
                # which equalities no longer check: the errors name lines of Proofs/Formulas.lean, each inside one theorem
                import re
                pf = open(os.path.join(core.LEAN, "CvssVerif", "Proofs", "Formulas.lean")).read().splitlines()
                thm_at = []
                for i, line in enumerate(pf, 1):
                    m = re.match(r"theorem (\w+)", line)
                    if m:
                        thm_at.append((i, m.group(1)))
                failed, unmapped = set(), False
                for l in log.splitlines():
                    if not l.startswith("error:"):
                        continue
                    m = re.search(r"Proofs/Formulas\.lean:(\d+):", l)
                    if m:
                        ln = int(m.group(1))
                        names = [n for (i, n) in thm_at if i <= ln]
                        if names and names[-1] in THEOREM_DEF:
                            failed.add(THEOREM_DEF[names[-1]])
                            continue
                        unmapped = True
                    elif "Generated/Formulas.lean" in l or "Props/Src.lean" in l:
                        unmapped = True
                if unmapped or not failed:
                    failed = set(THEOREM_DEF.values())
                res["failed"] = sorted(failed)
                res["relevant"] = [k for k in sorted(failed) if k in mine]
                res["status"] = "lost" if res["relevant"] else ("not-understood" if any(k in mine for k in nu) else "lost-elsewhere")
                errs = [l for l in log.splitlines() if l.startswith("error:")]
                res["note"] = (" | ".join(e[:160] for e in errs))[:1500]
            return res
    except core.BuildError as e:
        res["note"] = "go/formulas failed: " + str(e)[-600:]
    put(ref)
    return res


# which translated per-metric functions (go/tables) a property is about.  C20 is about all of them; a score property is
# about the Value / IsChanged methods its equations read (they are the *primitives* of the translated score functions).
_V3B = ["T3.AttackVector_Value", "T3.AttackComplexity_Value", "T3.PrivilegesRequired_Value", "T3.UserInteraction_Value", "T3.Scope_IsChanged",
        "T3.ConfidentialityImpact_Value", "T3.IntegrityImpact_Value", "T3.AvailabilityImpact_Value"]
_V3T = ["T3.Exploitability_Value", "T3.RemediationLevel_Value", "T3.ReportConfidence_Value"]
_V3E = ["T3.ConfidentialityRequirement_Value", "T3.IntegrityRequirement_Value", "T3.AvailabilityRequirement_Value", "T3.ModifiedAttackVector_Value",
        "T3.ModifiedAttackComplexity_Value", "T3.ModifiedPrivilegesRequired_Value", "T3.ModifiedUserInteraction_Value", "T3.ModifiedScope_IsChanged",
        "T3.ModifiedConfidentialityImpact_Value", "T3.ModifiedIntegrityImpact_Value", "T3.ModifiedAvailabilityImpact_Value",
        "T3.ModifiedConfidentialityImpact_String", "T3.ModifiedIntegrityImpact_String", "T3.ModifiedAvailabilityImpact_String",
        "T3.ModifiedAttackComplexity_String"]
_V2B = ["T2.AccessVector_Value", "T2.AccessComplexity_Value", "T2.Authentication_Value", "T2.ConfidentialityImpact_Value", "T2.IntegrityImpact_Value",
        "T2.AvailabilityImpact_Value"]
_V2T = ["T2.Exploitability_Value", "T2.RemediationLevel_Value", "T2.ReportConfidence_Value"]
_V2E = ["T2.CollateralDamagePotential_Value", "T2.TargetDistribution_Value", "T2.ConfidentialityRequirement_Value", "T2.IntegrityRequirement_Value",
        "T2.AvailabilityRequirement_Value"]
TABLE_DEFS = {
    "C01": _V3B, "C02": _V3B + _V3T, "C03": _V3B + _V3T + _V3E, "C04": _V2B + _V2T, "C05": _V2B + _V2T + _V2E,
    "C13": _V3B + _V3T + _V3E + _V2B + _V2T + _V2E, "C20": None,      # None: all of them
}
TAB_MODULE = "CvssVerif.Props.SrcTab"
TAB_THEOREMS = ["v3_get_is_source", "v3_string_is_source", "v3_validity_is_source", "v3_values_are_source", "v3_labels_are_source",
                "v2_get_is_source", "v2_string_is_source", "v2_value_is_source", "v2_validity_is_source", "v2_labels_are_source",
                "reverse_lookups_are_deterministic"]
_TABLES_CACHE = {}


def _split_tab_blocks(txt):
    """Generated/Tables.lean -> {"T3.GetAttackVector": text, "T3.tbl_x": text, ...}"""
    import re
    res, ns = {}, None
    cur, buf = None, []
    for line in txt.splitlines():
        if line.startswith("namespace CvssVerif.Gen."):
            ns = line.split(".")[-1]
        m = re.match(r"-- @def (\S+)", line)
        if m or line.startswith("end CvssVerif.Gen."):
            if cur:
                res[cur] = "\n".join(buf).strip()
            cur, buf = ("%s.%s" % (ns, m.group(1)) if m else None), []
            continue
        if cur:
            buf.append(line)
    return res


def run_tables(prop):
    """regenerate lean/CvssVerif/Generated/Tables.lean from the text of the per-metric types of /repo (go/tables) and
    re-check `Props/SrcTab.lean` (translated GetXxx / String / Value / validity / IsChanged = the model's, for every string
    and every integer).  Same statuses as run_formulas: proved / not-understood / lost / lost-elsewhere."""
    src = os.path.join(core.VERIF, "go", "tables")
    out = os.path.join(core.BUILD, "tables")
    dst = os.path.join(core.LEAN, "CvssVerif", "Generated", "Tables.lean")
    refp = os.path.join(src, "reference.lean")
    ref = open(refp).read()
    res = {"status": "not-understood", "note": "", "changed": [], "relevant": [], "failed": [], "not_understood": [],
           "translator": "go/tables (go/parser; statement-by-statement translation of the per-metric functions, map literals as sorted association lists)"}

    def put(txt):
        if not os.path.exists(dst) or open(dst).read() != txt:
            open(dst, "w").write(txt)
    try:
        core.sh(["go", "build", "-o", out, "."], cwd=src, env=core.GOENV, timeout=300)
        if os.path.exists(dst + ".new"):
            os.remove(dst + ".new")
        p = core.sh([out, core.REPO, dst + ".new", refp], timeout=120, check=False)
        txt = p.stdout.strip()
        res["note"] = txt[-1500:]
        nu = []
        for line in txt.splitlines():
            if line.startswith("not-understood:"):
                nu = line.split(":", 1)[1].split()
        res["not_understood"] = nu
        if p.returncode == 0 and txt.endswith("written=true") and os.path.exists(dst + ".new"):
            new = open(dst + ".new").read()
            os.remove(dst + ".new")
            put(new)
            a, b = _split_tab_blocks(ref), _split_tab_blocks(new)
            res["changed"] = sorted(k for k in set(a) | set(b) if a.get(k) != b.get(k) and not k.endswith((".consts", ".revTables")))
            res["functions"] = len([k for k in b if ".tbl_" not in k])
            mine = TABLE_DEFS.get(prop)
            rel = (lambda k: True) if mine is None else (lambda k: k in mine)
            key = new
            if key in _TABLES_CACHE:
                ok, log = _TABLES_CACHE[key]
            else:
                ok, log = core.build_lean([TAB_MODULE])
                _TABLES_CACHE[key] = (ok, log)
            if ok:
                res["status"] = "not-understood" if any(rel(k) for k in nu) else "proved"
            else:
                import re
                pf = open(os.path.join(core.LEAN, "CvssVerif", "Proofs", "Tables.lean")).read().splitlines()
                thm_at = []
                for i, line in enumerate(pf, 1):
                    m = re.match(r"theorem (\w+)", line)
                    if m:
                        thm_at.append((i, m.group(1)))
                failed, unmapped = set(), False
                for l in log.splitlines():
                    if not l.startswith("error:"):
                        continue
                    m = re.search(r"Proofs/Tables\.lean:(\d+):", l)
                    if m:
                        ln = int(m.group(1))
                        names = [n for (i, n) in thm_at if i <= ln]
                        mm = re.match(r"(\w+)_(\d)$", names[-1]) if names else None
                        if mm:
                            failed.add("T%s.%s" % (mm.group(2), mm.group(1)))
                            continue
                        if names and names[-1].startswith("revTables_nodup"):
                            failed.add("T%s.revTables" % names[-1][-1])
                            continue
                        unmapped = True
                    elif "Generated/Tables.lean" in l or "Props/SrcTab.lean" in l:
                        unmapped = True
                if unmapped or not failed:
                    failed = set(k for k in b if ".tbl_" not in k)
                # a function that is not understood carries the reference text: an equality about it cannot fail because
                # of the source; and an equality may fail only because it rewrites with one that failed (Value via String)
                res["failed"] = sorted(failed)
                res["relevant"] = [k for k in sorted(failed) if rel(k) or k.endswith(".revTables")]
                res["status"] = "lost" if res["relevant"] else ("not-understood" if any(rel(k) for k in nu) else "lost-elsewhere")
                errs = [l for l in log.splitlines() if l.startswith("error:")]
                res["note"] = (" | ".join(e[:160] for e in errs))[:1500]
            return res
    except core.BuildError as e:
        res["note"] = "go/tables failed: " + str(e)[-600:]
    put(ref)
    return res


# which translated functions of go/decoders (D3/D2) and go/tables (T3/T2) a parser / encoder property is about
DEC_RELEVANT = {
    "C07": r"^D3\.(GetVersion|New\w+|\w+_(GetError|decodeOne|Decode)(_nil)?)$|^T3\.(Get\w+|get|\w+_(IsUnknown|IsValid))$",
    "C08": r"^D2\..*|^T2\.(Get\w+|\w+_(IsUnknown|IsValid|String))$",
    "C09": r"^D[23]\.(\w+_(decodeOne|Decode)|New\w+|GetVersion)$|^T[23]\.(Get\w+|get)$",
    "C10": r"^D[23]\.(\w+_(Encode|String|Decode|GetError|IsEmpty))$|^T[23]\.\w+_String$",
    "C11": r"^D[23]\.(GetVersion|\w+_(GetError|decodeOne|Decode|Encode|IsEmpty))$|^T[23]\.(Get\w+|get|\w+_(IsUnknown|IsValid))$",
    "C12": r"^D[23]\..*",
    "C14": r"^D[23]\.\w+_(BaseMetrics|TemporalMetrics)(_nil)?$",
}
DEC_MODULE = "CvssVerif.Props.SrcDec"
DEC_THEOREMS = ["v3_functions_are_source", "v2_functions_are_source", "constructors_are_source", "nil_receivers_are_source", "accessors_are_source",
                "no_index_panic", "v3_accepts_iff_source", "v2_accepts_iff_source", "v3_errors_sound_source", "v2_errors_sound_source",
                "encode_of_accepted_source", "decode_source_iff", "v3_fields_source", "names_abstraction_ok", "sentinels_are_distinct_values"]
_DEC_CACHE = {}
ALL_MODULE = "CvssVerif.Props.SrcAll"
ALL_THEOREMS = ["v3_string_to_scores_source", "v2_string_to_scores_source", "primitives_are_source"]


def run_decoders(prop):
    """regenerate Generated/Tables.lean (go/tables) and Generated/Decoders.lean (go/decoders) from the text of /repo and re-check
    `Props/SrcDec.lean` (translated constructors / Decode / decodeOne / GetError / Encode / String / IsEmpty / GetVersion = the
    model's, for every object and every byte string, and no index panic).  Statuses as in run_formulas."""
    import re
    rel_re = re.compile(DEC_RELEVANT[prop])
    rel = lambda k: bool(rel_re.match(k))
    res = {"status": "not-understood", "note": "", "changed": [], "relevant": [], "failed": [], "not_understood": [],
           "translator": "go/decoders + go/tables (go/parser; statement-by-statement translation onto the model's object, `none` = panic)"}
    gen = {}
    for kind in ("tables", "decoders"):
        src = os.path.join(core.VERIF, "go", kind)
        out = os.path.join(core.BUILD, kind)
        dst = os.path.join(core.LEAN, "CvssVerif", "Generated", kind.capitalize() + ".lean")
        refp = os.path.join(src, "reference.lean")
        ref = open(refp).read()

        def put(txt, dst=dst):
            if not os.path.exists(dst) or open(dst).read() != txt:
                open(dst, "w").write(txt)
        try:
            core.sh(["go", "build", "-o", out, "."], cwd=src, env=core.GOENV, timeout=300)
            if os.path.exists(dst + ".new"):
                os.remove(dst + ".new")
            p = core.sh([out, core.REPO, dst + ".new", refp], timeout=120, check=False)
            txt = p.stdout.strip()
            res["note"] += txt[-700:] + " "
            for line in txt.splitlines():
                if line.startswith("not-understood:"):
                    res["not_understood"] += line.split(":", 1)[1].split()
            if p.returncode == 0 and txt.endswith("written=true") and os.path.exists(dst + ".new"):
                new = open(dst + ".new").read()
                os.remove(dst + ".new")
                put(new)
                gen[kind] = new
                a, b = _split_tab_blocks(ref), _split_tab_blocks(new)
                res["changed"] += sorted(k for k in set(a) | set(b) if a.get(k) != b.get(k) and not k.endswith((".consts", ".revTables", ".markSites")))
                continue
        except core.BuildError as e:
            res["note"] += "go/%s failed: %s " % (kind, str(e)[-400:])
        # the translator failed altogether: reference text, nothing claimed
        put(ref)
        res["not_understood"].append("%s.*" % ("T" if kind == "tables" else "D"))
        gen[kind] = None
    if gen.get("tables") is None or gen.get("decoders") is None:
        res["status"] = "not-understood"
        return res
    key = gen["tables"] + gen["decoders"]
    if key in _DEC_CACHE:
        ok, log = _DEC_CACHE[key]
    else:
        ok, log = core.build_lean([TAB_MODULE, DEC_MODULE])
        _DEC_CACHE[key] = (ok, log)
    nu = res["not_understood"]
    res["functions"] = len([k for k in _split_tab_blocks(gen["decoders"]) if not k.endswith(".markSites")])
    if ok:
        res["status"] = "not-understood" if any(rel(k) for k in nu) else "proved"
        return res
    failed, unmapped = set(), False
    for fname, pre in (("Tables", "T"), ("Decoders", "D")):
        pf = open(os.path.join(core.LEAN, "CvssVerif", "Proofs", fname + ".lean")).read().splitlines()
        thm_at = []
        for i, line in enumerate(pf, 1):
            m = re.match(r"theorem (\w+)", line)
            if m:
                thm_at.append((i, m.group(1)))
        for l in log.splitlines():
            if not l.startswith("error:"):
                continue
            m = re.search(r"Proofs/%s\.lean:(\d+):" % fname, l)
            if not m:
                continue
            ln = int(m.group(1))
            names = [n for (i, n) in thm_at if i <= ln]
            mm = re.match(r"(\w+)_(\d)$", names[-1]) if names else None
            if mm:
                failed.add("%s%s.%s" % (pre, mm.group(2), mm.group(1)))
            elif names and (names[-1].startswith("revTables_nodup") or names[-1] == "markSites_ok"):
                failed.add(pre + "?.obligation:" + names[-1])
            else:
                unmapped = True
    for l in log.splitlines():
        if l.startswith("error:") and ("Generated/" in l or "Props/Src" in l):
            unmapped = True
    if unmapped or not failed:
        failed = set(k for k in _split_tab_blocks(gen["decoders"])) | set(k for k in _split_tab_blocks(gen["tables"]) if ".tbl_" not in k)
    # theorems that bundle several functions (String_3, IsEmpty_2, constructors_3, nil_receivers_3): every function of the bundle
    bundle = {"String": ["Base_String", "Temporal_String", "Environmental_String"], "IsEmpty": ["Temporal_IsEmpty", "Environmental_IsEmpty"],
              "constructors": ["NewBase", "NewTemporal", "NewEnvironmental"], "nil_receivers": ["Base_GetError_nil", "Base_Encode_nil"],
              "accessors": ["Base_BaseMetrics", "Temporal_BaseMetrics", "Environmental_BaseMetrics", "Environmental_TemporalMetrics",
                            "Temporal_BaseMetrics_nil", "Environmental_BaseMetrics_nil", "Environmental_TemporalMetrics_nil"]}
    exp = set()
    for k in failed:
        pre, _, nm = k.partition(".")
        if nm in bundle:
            exp.update("%s.%s" % (pre, x) for x in bundle[nm])
        else:
            exp.add(k)
    # a function that is not understood carries the reference text: an equality about it cannot fail because of the source
    res["failed"] = sorted(exp)
    res["relevant"] = [k for k in sorted(exp) if (rel(k) or "obligation" in k) and k not in nu]
    res["status"] = "lost" if res["relevant"] else ("not-understood" if any(rel(k) for k in nu) else "lost-elsewhere")
    errs = [l for l in log.splitlines() if l.startswith("error:")]
    res["note"] = (" | ".join(e[:160] for e in errs))[:1500]
    return res


REP_MODULE = "CvssVerif.Props.SrcRep"
REP_THEOREMS = ["constructors_are_schema", "fields_unique", "embedding_is_schema", "options_default_english"]


def run_wiring():
    """regenerate Generated/Wiring.lean from the text of the report constructors of /repo/v3/report (go/wiring) and re-check
    Props/SrcRep.lean (what each field of each constructor is initialised from = the schema of C17)."""
    src = os.path.join(core.VERIF, "go", "wiring")
    out = os.path.join(core.BUILD, "wiring")
    dst = os.path.join(core.LEAN, "CvssVerif", "Generated", "Wiring.lean")
    refp = os.path.join(src, "reference.lean")
    ref = open(refp).read()
    res = {"status": "not-understood", "note": "", "not_understood": [], "failed": [],
           "translator": "go/wiring (go/parser; reads what every field of the three report constructors is initialised from, the embedding and the options glue)"}

    def put(txt):
        if not os.path.exists(dst) or open(dst).read() != txt:
            open(dst, "w").write(txt)
    try:
        core.sh(["go", "build", "-o", out, "."], cwd=src, env=core.GOENV, timeout=300)
        if os.path.exists(dst + ".new"):
            os.remove(dst + ".new")
        p = core.sh([out, core.REPO, dst + ".new", refp], timeout=120, check=False)
        txt = p.stdout.strip()
        res["note"] = txt[-800:]
        for line in txt.splitlines():
            if line.startswith("not-understood:"):
                res["not_understood"] = line.split(":", 1)[1].split()
        if p.returncode == 0 and txt.endswith("written=true") and os.path.exists(dst + ".new"):
            new = open(dst + ".new").read()
            os.remove(dst + ".new")
            put(new)
            ok, log = core.build_lean([REP_MODULE])
            if ok:
                res["status"] = "not-understood" if res["not_understood"] else "proved"
            else:
                errs = [l for l in log.splitlines() if l.startswith("error:")]
                res["note"] = (" | ".join(e[:200] for e in errs))[:1200]
                res["failed"] = ["report constructors"]
                res["status"] = "lost"
            return res
    except core.BuildError as e:
        res["note"] = "go/wiring failed: " + str(e)[-600:]
    put(ref)
    return res


GLUE_MODULE = "CvssVerif.Props.SrcGlue"
GLUE_THEOREMS = ["getTempleteString_is_model", "executeTemplate_is_model", "exportWithString_is_model", "exportWith_is_model",
                 "c19_about_source", "reader_is_string_source"]


def run_glue():
    """regenerate Generated/Glue.lean from the text of the template-export glue of /repo/v3/report (go/glue) and re-check
    Props/SrcGlue.lean (the translated ExportWith / ExportWithString = the model's exportWith / exportWithString, C19)."""
    src = os.path.join(core.VERIF, "go", "glue")
    out = os.path.join(core.BUILD, "glue")
    dst = os.path.join(core.LEAN, "CvssVerif", "Generated", "Glue.lean")
    refp = os.path.join(src, "reference.lean")
    ref = open(refp).read()
    res = {"status": "not-understood", "note": "", "not_understood": [], "failed": [],
           "translator": "go/glue (go/parser; statement-by-statement translation of getTempleteString, executeTemplate and the six "
                         "ExportWith / ExportWithString methods; io.Copy, template Parse and Execute are parameters)"}

    def put(txt):
        if not os.path.exists(dst) or open(dst).read() != txt:
            open(dst, "w").write(txt)
    try:
        core.sh(["go", "build", "-o", out, "."], cwd=src, env=core.GOENV, timeout=300)
        if os.path.exists(dst + ".new"):
            os.remove(dst + ".new")
        p = core.sh([out, core.REPO, dst + ".new", refp], timeout=120, check=False)
        txt = p.stdout.strip()
        res["note"] = txt[-800:]
        for line in txt.splitlines():
            if line.startswith("not-understood:"):
                res["not_understood"] = line.split(":", 1)[1].split()
        if p.returncode == 0 and txt.endswith("written=true") and os.path.exists(dst + ".new"):
            new = open(dst + ".new").read()
            os.remove(dst + ".new")
            if res["not_understood"]:
                # a function outside the subset: nothing is claimed in this run (its callers' proofs would be about the reference text)
                put(ref)
                return res
            put(new)
            ok, log = core.build_lean([GLUE_MODULE])
            if ok:
                res["status"] = "proved"
            else:
                errs = [l for l in log.splitlines() if l.startswith("error:")]
                res["note"] = (" | ".join(e[:200] for e in errs))[:1200]
                res["failed"] = ["template-export glue"]
                res["status"] = "lost"
            return res
    except core.BuildError as e:
        res["note"] = "go/glue failed: " + str(e)[-600:]
    put(ref)
    return res


def run_effects():
    """regenerate lean/CvssVerif/Generated/Effects.lean from /repo (write-set facts: translator tie of C15/C16);
    returns the rows that are not what the model assumes (for the report), [] when all is as expected"""
    src = os.path.join(core.VERIF, "go", "effects")
    out = os.path.join(core.BUILD, "effects")
    core.sh(["go", "build", "-o", out, "."], cwd=src, env=core.GOENV, timeout=600)
    dst = os.path.join(core.LEAN, "CvssVerif", "Generated", "Effects.lean")
    tmp = dst + ".new"
    core.sh([out, core.REPO, tmp], env=dict(core.GOENV, GOFLAGS="-mod=mod"), timeout=300)
    new = open(tmp).read()
    if not os.path.exists(dst) or open(dst).read() != new:
        os.replace(tmp, dst)        # (only touched when the facts changed: lake rebuilds nothing otherwise)
    else:
        os.remove(tmp)
    odd = []
    for line in new.splitlines():
        line = line.strip()
        if not line.startswith("(b!"):
            continue
        name = line.split('"')[1]
        tail = line[line.index('", b!"') :]
        params = tail.split("[")[1].split("]")[0].strip()
        globs = tail.split("[")[2].split("]")[0].strip()
        ok = params == ("0" if name.endswith(").Decode") else "") or (name.endswith(").ExportWith") and params in ("", "1"))
        if not ok or globs:
            odd.append("%s may write through parameters [%s] and package-level variables [%s]" % (name, params, globs.replace('b!', '')))
    return odd


import os  # noqa: E402


class SimpleProp:
    """a property decided on ops whose full result line is compared and judged by `judge_line`"""
    needs_extract = False
    trusted_base = TB_COMMON
    assumptions = []

    def ops(self, tier, rng):
        raise NotImplementedError

    def expected(self, ops, go):
        """model lines to compare with (default: run the same ops on the model)"""
        return core.run_sharded(core.MODEL, ops)

    def judge_line(self, op, g, m):
        return []

    def keep(self, op):
        return True

    def run(self, tier, rng, seed):
        out = Outcome()
        out.rule = self.rule
        ops = self.ops(tier, rng)
        go = core.run_sharded(core.HARNESS, ops, shards=max(1, core.NPROC // 2))
        mo = self.expected(ops, go)
        out.evaluations = len(ops)
        out.distinct = len(set(ops))
        hist = {}
        for op, g, m in zip(ops, go, mo):
            k = op.split(" ")[0] + ("/" + self.bucket(op, g) if hasattr(self, "bucket") else "")
            hist[k] = hist.get(k, 0) + 1
            if g.startswith(("PANIC", "CRASH", "TIMEOUT")):
                out.violations.append((op, "operation did not return normally: " + g[:100], g, m))
                continue
            if hasattr(self, "cmp_op"):
                differs = self.cmp_op(op, g) != self.cmp_op(op, m)
            else:
                differs = self.cmp(g) != self.cmp_model(m)
            if self.keep(op) and differs:
                out.mismatches += 1
                if len(out.mismatch_examples) < 10:
                    out.mismatch_examples.append({"stream": self.prop, "op": op, "impl": g[:2000], "model": m[:2000]})
            for msg in self.judge_line(op, g, m):
                out.violations.append((op, msg, g[:1500], m[:1500]))
        for msg, op in self.judge_all(ops, go):
            out.violations.append((op, msg, "", ""))
        out.hist = hist
        out.stream_info.append({"stream": self.prop, "ops": len(ops), "exhaustive": getattr(self, "exhaustive", False),
                                "mismatches": out.mismatches, "violations": len(out.violations)})
        out.exhaustive = getattr(self, "exhaustive", False)
        step = max(1, len(ops) // 5)
        out.samples = [{"op": runner._readable(o), "impl": g[:300]} for o, g in list(zip(ops, go))[::step]][:6]
        return out

    def cmp(self, g):
        return g

    def cmp_model(self, m):
        return m

    def judge_all(self, ops, go):
        return []

    def replay(self, rp):
        return self.run("quick", core.Rng(1), 1)


NAME_FUNCS_TITLE = ["AttackComplexity", "AttackVector", "AvailabilityImpact", "AvailabilityRequirement", "BaseMetrics", "BaseMetricsValueOf",
                    "ConfidentialityImpact", "ConfidentialityRequirement", "EnvironmentalMetrics", "EnvironmentalMetricsValueOf", "Exploitability",
                    "IntegrityImpact", "IntegrityRequirement", "ModifiedAttackComplexity", "ModifiedAttackVector", "ModifiedAvailabilityImpact",
                    "ModifiedConfidentialityImpact", "ModifiedIntegrityImpact", "ModifiedPrivilegesRequired", "ModifiedScope",
                    "ModifiedUserInteraction", "PrivilegesRequired", "RemediationLevel", "ReportConfidence", "Scope", "Severity",
                    "TemporalMetrics", "TemporalMetricsValueOf", "UserInteraction"]
MOD_PAIRS = [("MAV", "AV"), ("MAC", "AC"), ("MPR", "PR"), ("MUI", "UI"), ("MS", "S"), ("MC", "C"), ("MI", "I"), ("MA", "A")]


class NamesProp(SimpleProp):
    prop = "C18"
    needs_extract = True
    exhaustive = True
    lean_modules = ["CvssVerif.Props.C18"]
    theorems = ["CvssVerif.Props.C18." + t for t in (
        "extractor_complete", "tables_only_en_ja", "titles_nonempty", "functions_present", "values_named_unambiguously", "severity_named",
        "modified_same_names", "keys_are_defined_values", "out_of_range_unknown", "unknown_names", "other_lang_is_english")]
    rule = ("all 52 exported functions of v3/report/names x enumeration integers -3..10 x language tags {en, ja, fr, und, zh-Hant, de} "
            "(en-US and ja-JP are run and recorded but, as the property leaves regional variants unspecified, not judged); distinct by op")
    assumptions = ["golang.org/x/text/language tag equality is not modelled: a tag is 'English', 'Japanese' or 'other'"]
    trusted_base = TB_COMMON + ["go/extract (go/parser based translator of the names tables into Generated/Names.lean, re-run on every check)"]

    def ops(self, tier, rng):
        from . import vec
        ops = []
        fns = NAME_FUNCS_TITLE + [m[0] + "ValueOf" for m in vec.V3] + ["SeverityValueOf"]
        for fn in fns:
            for v in range(-3, 11):
                for tag in TAGS_JUDGED + TAGS_REGIONAL:
                    ops.append("NM %s %d %s" % (fn, v, tag))
        # integers far outside every enumeration (powers of two, small values plus multiples of 2^8/2^16/2^32, the limits of
        # int32 and int64): the property quantifies over all integers
        far = S.far_ints()
        for fn in fns:
            if fn in NAME_FUNCS_TITLE:
                continue
            for v in far:
                for tag in ("en", "ja", "fr"):
                    ops.append("NM %s %d %s" % (fn, v, tag))
        # the tag space: every 2-letter tag, the 3-letter tags around "en" and "ja" (they may or may not be canonicalised to
        # them by x/text; the harness reports x/text's classification), tags with script and region, private use, garbage
        az = "abcdefghijklmnopqrstuvwxyz"
        tags = [a + b for a in az for b in az]
        tags += ["en" + c for c in az] + ["ja" + c for c in az] + ["jp" + c for c in az] + ["e" + c + "g" for c in az]
        tags += ["eng", "jpn", "jam-JM", "fr-CA", "zh-Hant-TW", "sr-Latn-RS", "de-1996", "x-private", "i-klingon", "und-JP", "und-US",
                 "mul", "zxx", "en-Latn", "ja-Jpan", "EN", "JA", "Ja", "e", "j", "", "en_US", "ja_JP", "e-n", "j-a", "ja-x-a", "en-u-ca-buddhist"]
        if tier == "thorough":
            tags += [a + b + c for a in az for b in az for c in az]
        else:
            tags += [rng.choice(az) + rng.choice(az) + rng.choice(az) for _ in range(300)]
        vals = {m[0] + "ValueOf": m for m in vec.V3}
        for tag in tags:
            if tag in TAGS_JUDGED + TAGS_REGIONAL or not tag or " " in tag:
                continue
            some = [rng.choice(fns) for _ in range(3)] + ["AttackVector", "SeverityValueOf", "MUIValueOf"]
            for fn in some:
                for v in ((0,) if fn in NAME_FUNCS_TITLE else (rng.below(6), 99)):
                    ops.append("NM %s %d %s" % (fn, v, tag))
        return ops

    def expected(self, ops, go):
        """the model knows three kinds of tag; which kind a tag string is, is x/text's verdict, reported by the harness"""
        mops = []
        for op, g in zip(ops, go):
            f = op.split(" ")
            cls = core.parse_kv(g).get("cls", "other")
            mops.append("NM %s %s %s" % (f[1], f[2], cls))
        mo = core.run_sharded(core.MODEL, mops)
        # other tags of the two languages (en-US, ja-JP, ...) are left unspecified by the property: run, recorded, not compared
        return ["unspecified" if mop.endswith(" regional") else m for mop, m in zip(mops, mo)]

    def cmp(self, g):
        if "cls=regional" in g:
            return "unspecified"
        return " ".join(t for t in g.split(" ") if not t.startswith("cls="))

    def keep(self, op):
        return True

    def bucket(self, op, g):
        return core.parse_kv(g).get("cls", "?")

    def judge_line(self, op, g, m):
        return []

    def judge_all(self, ops, go):
        from . import vec
        res = {}
        cls = {}
        for op, g in zip(ops, go):
            f = op.split(" ")
            d = core.parse_kv(g)
            try:
                res[(f[1], int(f[2]), f[3])] = core.unhx(d.get("name", "-")).decode("utf-8", "replace")
            except Exception:
                res[(f[1], int(f[2]), f[3])] = None
            cls[f[3]] = d.get("cls")
        msgs = []
        # the enumeration value of each code comes from the implementation's own Get (table dump)
        tops = []
        for mm in vec.V3:
            for c in mm[2]:
                tops.append("T3 %s get %s" % (mm[0], core.hx(c)))
        tg = core.run_sharded(core.HARNESS, tops, shards=1)
        val = {}
        for op, g in zip(tops, tg):
            f = op.split(" ")
            val[(f[1], core.unhx(f[3]).decode())] = int(core.parse_kv(g).get("get", "0"))
        unknown = {"en": "Unknown", "ja": "未定義"}
        probed = {}
        for k in res:
            probed.setdefault((k[0], k[2]), set()).add(k[1])
        for fn in NAME_FUNCS_TITLE:
            for tag in ("en", "ja"):
                if not res.get((fn, 0, tag)):
                    msgs.append(("title %s has no %s name" % (fn, tag), "NM %s 0 %s" % (fn, tag)))
        for mm in vec.V3:
            fn = mm[0] + "ValueOf"
            defined = [val[(mm[0], c)] for c in mm[2]]
            for tag in ("en", "ja"):
                names = [res.get((fn, v, tag)) for v in defined]
                for v, n in zip(defined, names):
                    if not n:
                        msgs.append(("%s(%d) has no %s name" % (fn, v, tag), "NM %s %d %s" % (fn, v, tag)))
                if len(set(names)) != len(names):
                    msgs.append(("%s: two defined values share a %s name: %s" % (fn, tag, names), "NM %s %d %s" % (fn, defined[0], tag)))
                for v in sorted(probed.get((fn, tag), ())):
                    if v not in defined and res.get((fn, v, tag)) != unknown[tag]:
                        msgs.append(("%s(%d) out of range is named %r in %s" % (fn, v, res.get((fn, v, tag)), tag), "NM %s %d %s" % (fn, v, tag)))
        for tag in ("en", "ja"):
            defined = [1, 2, 3, 4, 5]
            names = [res.get(("SeverityValueOf", v, tag)) for v in defined]
            if not all(names) or len(set(names)) != 5:
                msgs.append(("severity names in %s: %s" % (tag, names), "NM SeverityValueOf 1 %s" % tag))
            for v in sorted(probed.get(("SeverityValueOf", tag), ())):
                if v not in defined and res.get(("SeverityValueOf", v, tag)) != unknown[tag]:
                    msgs.append(("SeverityValueOf(%d) out of range is named %r" % (v, res.get(("SeverityValueOf", v, tag))), "NM SeverityValueOf %d %s" % (v, tag)))
        for mod, base in MOD_PAIRS:
            bm = [m for m in vec.V3 if m[0] == base][0]
            for c in bm[2]:
                for tag in ("en", "ja"):
                    a = res.get((mod + "ValueOf", val[(mod, c)], tag))
                    b = res.get((base + "ValueOf", val[(base, c)], tag))
                    if a != b:
                        msgs.append(("%s value %s is named %r but %s value %s is named %r (%s)" % (mod, c, a, base, c, b, tag),
                                     "NM %sValueOf %d %s" % (mod, val[(mod, c)], tag)))
        # cold start: each function as the *first* call into the package in a fresh process (tables built lazily, or in an
        # order that depends on which function runs first, answer differently there)
        self.cold = 0
        allfns = NAME_FUNCS_TITLE + [m[0] + "ValueOf" for m in vec.V3] + ["SeverityValueOf"]
        for fn in allfns:
            probes = [(v, tag) for v in ((0,) if fn in NAME_FUNCS_TITLE else (1, 2, 3, 4, 5, 0, 99)) for tag in ("ja", "en", "fr")]
            pops = ["NM %s %d %s" % (fn, v, tag) for v, tag in probes]
            pg = core.run_sharded(core.HARNESS, pops, shards=1)
            self.cold += len(pops)
            for (v, tag), g in zip(probes, pg):
                try:
                    n = core.unhx(core.parse_kv(g).get("name", "-")).decode("utf-8", "replace")
                except Exception:
                    n = None
                if (fn, v, tag) in res and res[(fn, v, tag)] != n:
                    msgs.append(("%s(%d, %s) is %r when it is the first call into the package in a fresh process, %r otherwise"
                                 % (fn, v, tag, n, res[(fn, v, tag)]), "NM %s %d %s" % (fn, v, tag)))
                    break
        for (fn, v, tag), n in res.items():
            if cls.get(tag) == "other" and n != res.get((fn, v, "en")) and (fn, v, "en") in res:
                msgs.append(("%s(%d) in %s is %r, English is %r" % (fn, v, tag, n, res.get((fn, v, "en"))), "NM %s %d %s" % (fn, v, tag)))
        return msgs


_reg(NamesProp())


class ReportProp(SimpleProp):
    prop = "C17"
    needs_extract = True
    lean_modules = ["CvssVerif.Props.C17"]
    theorems = ["CvssVerif.Props.C17." + t for t in ("report_field", "wiring", "levels", "version_field", "paths_unique", "score_rendering",
                                                     "schema_on_own_scores")]
    rule = ("all-values cover (each value of each of the 22 metrics, neighbouring metrics pairwise different) plus seeded random vectors and "
            "vectors scoring 0.0 and 10.0 at every level, x 3 report levels x language tags; every exported string field of the report and "
            "of its embedded reports compared by path; distinct by op")
    assumptions = ["strconv.FormatFloat is not modelled beyond the tenth grid (all scores are on it: C06)"]
    trusted_base = TB_COMMON + ["Report.schema (lean/CvssVerif/Model/Report.lean) as the formal reading of 'each field shows its own metric'",
                                "go/extract for the names tables"]

    def ops(self, tier, rng):
        from . import vec
        vecs = []
        # all-values cover: cyclic assignment so that neighbours differ
        for shift in range(6):
            for ver in vec.VERS3:
                vals = [m[2][(shift + i) % len(m[2])] for i, m in enumerate(vec.V3)]
                vecs.append(vec.v3vec(ver, vec.toks(vec.V3, vals)))
        # extremes: 10.0 and 0.0 at each level
        vecs += ["CVSS:3.1/AV:N/AC:L/PR:N/UI:N/S:C/C:H/I:H/A:H", "CVSS:3.0/AV:N/AC:L/PR:N/UI:N/S:C/C:H/I:H/A:H/E:H/RL:U/RC:C/CR:H/IR:H/AR:H",
                 "CVSS:3.1/AV:N/AC:L/PR:N/UI:N/S:U/C:N/I:N/A:N", "CVSS:3.1/AV:N/AC:L/PR:N/UI:N/S:C/C:H/I:H/A:H/MC:N/MI:N/MA:N",
                 "CVSS:3.1/AV:P/AC:H/PR:H/UI:R/S:U/C:N/I:N/A:L/E:U/RL:O/RC:U", "CVSS:3.0/AV:L/AC:L/PR:N/UI:N/S:U/C:H/I:H/A:H/MAV:N/MS:C"]
        n = 300 if tier == "quick" else 30000
        for _ in range(n):
            vecs.append(vec.rand_v3(rng, 2))
        ops = []
        # every base vector at the environmental level (the levels' scores and severities differ for some of them although
        # no temporal or environmental metric is given), one language each; thorough: with temporal suffixes too
        k = 0
        for ver in vec.VERS3:
            for bt in vec.all_base3_tokens():
                sufs = [""] if tier == "quick" else ["", "/E:P/RL:O/RC:U", "/E:U/RL:W/RC:R", "/RC:R"]
                for suf in sufs:
                    k += 1
                    ops.append("R3 E %s %s" % (["en", "ja", "-"][k % 3], core.hx(vec.v3vec(ver, bt) + suf)))
        # regional and script variants of the two languages are requested in between (in an order that changes from vector
        # to vector): which language they resolve to is left open by C18, but a report must be in one language throughout,
        # and what is requested for one tag must not change what a later request for another tag gets
        tags = (TAGS_JUDGED if tier == "thorough" else ["en", "ja", "fr", "und"]) + TAGS_OTHER_SCRIPT + REPORT_REGIONAL + ["-"]
        for v in vecs:
            for L in "BTE":
                # a report of level L is built from a decoder of level L: keep only its metrics
                toks = v.split("/")
                keep = [toks[0]] + [t for t in toks[1:] if any(m[0] == t.split(":")[0] and m[1] <= "BTE".index(L) for m in vec.V3)]
                order = list(tags)
                rng.shuffle(order)
                for tag in order:
                    ops.append("R3 %s %s %s" % (L, tag, core.hx("/".join(keep))))
        return ops

    def keep(self, op):
        return op.split(" ")[2] not in REPORT_REGIONAL

    def expected(self, ops, go):
        """the report schema evaluated by the model on the decoded object and on the scores and severities the
        implementation itself reports for that object (C17 is about which score a field renders, not its value)"""
        mops = []
        alt = []        # regional tags: the same report in the other language
        for op, g in zip(ops, go):
            d = core.parse_kv(g)
            f = op.split(" ")
            reg = f[2] in REPORT_REGIONAL
            if reg:
                f[2] = "en"
            body = " ".join(f[1:])
            own = "OWN.s" in d and "OWN.sv" in d and "OWN.r" in d
            mops.append("R3W %s %s %s %s" % (body, d["OWN.s"], d["OWN.sv"], d["OWN.r"]) if own else "R3 " + body)
            if reg:
                f[2] = "ja"
                body = " ".join(f[1:])
                alt.append("R3W %s %s %s %s" % (body, d["OWN.s"], d["OWN.sv"], d["OWN.r"]) if own else "R3 " + body)
        mo = core.run_sharded(core.MODEL, mops)
        ao = iter(core.run_sharded(core.MODEL, alt))
        self._alt = {}
        for op in ops:
            if op.split(" ")[2] in REPORT_REGIONAL:
                self._alt[op] = next(ao)
        return mo

    def cmp(self, g):
        return " ".join(t for t in g.split(" ") if not t.startswith("OWN."))

    def judge_line(self, op, g, m):
        # the model *is* the schema evaluated on the specification's names: a differing field is a violation
        g = self.cmp(g)
        if g == m:
            return []
        if op.split(" ")[2] in REPORT_REGIONAL:
            if g == getattr(self, "_alt", {}).get(op):
                return []
            gd, ed, jd = core.parse_kv(g), core.parse_kv(m), core.parse_kv(self._alt.get(op, ""))
            ne = [k for k in sorted(set(gd) | set(ed)) if gd.get(k) != ed.get(k) and k != "_"]
            nj = [k for k in sorted(set(gd) | set(jd)) if gd.get(k) != jd.get(k) and k != "_"]
            return ["report requested for tag %s is neither the English report (%d fields differ, e.g. %s = %r) nor the Japanese one "
                    "(%d fields differ, e.g. %s = %r)" % (op.split(" ")[2], len(ne), ne[:1], _txt(gd.get(ne[0])) if ne else "",
                                                          len(nj), nj[:1], _txt(gd.get(nj[0])) if nj else "")]
        gd, md = core.parse_kv(g), core.parse_kv(m)
        msgs = []
        for k in sorted(set(gd) | set(md)):
            if gd.get(k) != md.get(k) and k != "_":
                msgs.append("report field %s shows %r, expected %r" % (k, _txt(gd.get(k)), _txt(md.get(k))))
        return msgs[:5]


def _txt(h):
    try:
        return core.unhx(h).decode("utf-8", "replace")
    except Exception:
        return h


_reg(ReportProp())


TEMPLATE_ATOMS = [
    "{{.Vector}}", "{{.Version}}", "{{.BaseScore}}", "{{.SeverityValue}}", "{{.SeverityName}}", "{{.AVName}}: {{.AVValue}}",
    "{{.BaseReport.Vector}}", "{{.BaseReport.SeverityValue}}", "{{.TemporalReport.SeverityValue}}", "{{.TemporalReport.BaseReport.BaseScore}}",
    "{{.TemporalScore}}", "{{.EnvironmentalScore}}", "{{.EName}}={{.EValue}}", "{{.MSName}}={{.MSValue}}", "{{.CRValue}}",
    "{{.AVName | printf \"%q\"}}", "{{printf \"%s/%s\" .ACName .ACValue}}", "{{len .Vector}}", "{{.Vector | len | printf \"%d\"}}",
    "{{if .BaseScore}}S={{.BaseScore}}{{else}}none{{end}}", "{{with .PRValue}}[{{.}}]{{end}}", "{{range .Vector}}.{{end}}",
    "{{if eq .SeverityValue \"Critical\"}}!{{end}}", "{{/* comment */}}x", "plain text あ", "| {{.BaseMetrics}} | {{.BaseMetricValue}} |\n",
    "{{.Nope}}", "{{.AVName.X}}", "{{nofunc .AVName}}", "{{.Vector", "{{end}}", "{{if}}", "{{template \"t\"}}", "{{.BaseReport}}",
    "{{define \"a\"}}{{template \"a\" .}}{{end}}{{template \"a\" .}}", "{{index .Vector 1000}}", "{{slice .Vector 0 4}}", "{{.ExportWithString \"x\"}}",
    "{{call .Vector}}", "{{printf \"%d\" .BaseScore}}", "{{ .Vector | html }}", "{{\"quoted\"}}", "{{1.5}} {{true}} {{nil}}", "{{$x := .UIValue}}{{$x}}",
]


def _short(res):
    """a long rendered text is replaced by its digest on both sides (the glue model only passes the engine's text through)"""
    if res and res.startswith("out:"):
        body, sep, err = res[4:].partition("|")
        if len(body) > 4000:
            import hashlib
            return "out:" + hashlib.sha256(body.encode()).hexdigest() + sep + err
    return res


class ExportProp(SimpleProp):
    prop = "C19"
    lean_modules = ["CvssVerif.Props.C19"]
    theorems = ["CvssVerif.Props.C19." + t for t in ("bad_reader", "reader_is_string", "nil_report", "engine_result", "clean_failure")]
    rule = ("templates built from a grammar of atoms (field references of all three levels incl. shadowed fields through embedded reports, "
            "pipelines, if/with/range, unknown fields and functions, unbalanced actions, self-recursive templates) and byte-level mutations of "
            "them, x reports of all levels and two languages, x {string, reader, chunked reader, partly consumed readers of four types, failing reader, nil reader, nil report}; the "
            "library's result against text/template called directly on the same report; 'held': the returned reader is read only after "
            "four further exports (two succeeding, two failing) on the same report; distinct by op")
    assumptions = ["PARTIAL: text/template itself is not modelled; it is the oracle the harness calls directly",
                   "'nil reader' is the nil interface; a typed nil pointer inside a non-nil io.Reader is a reader that panics (not covered)"]
    trusted_base = TB_COMMON + ["text/template as reference engine inside the harness",
                                "go/glue (go/parser translator of the export glue into Generated/Glue.lean, re-run on every check) and the behaviour "
                                "it assumes of io.Copy, template.Parse and Template.Execute (Model/GlueRt.lean)"]

    def ops(self, tier, rng):
        from . import vec
        n = {"quick": 1500, "escalated": 15000}.get(tier, 200000)
        vecs = ["CVSS:3.1/AV:N/AC:L/PR:N/UI:N/S:C/C:H/I:H/A:H", "CVSS:3.0/AV:L/AC:H/PR:L/UI:R/S:U/C:L/I:N/A:H/E:F/RL:W/RC:R/CR:H/MAV:N/MS:C"]
        ops = []
        modes = ["string", "reader", "chunked", "nilreader", "nilreport", "fail:0", "fail:3", "held", "heldreader",
                 # a nil report through every path (the nil guard sits in ExportWithString only; ExportWith reaches it after reading)
                 "nilreport+reader", "nilreport+chunked", "nilreport+string",
                 # readers whose first bytes the caller has consumed (strings / bytes / section / bufio readers)
                 "pre:s", "pre:b", "pre:x", "pre:u", "nilreport+pre:s"]
        seen_t = []
        for i in range(n):
            k = 1 + rng.below(4)
            t = "".join(rng.choice(TEMPLATE_ATOMS) + rng.choice(["", " ", "\n", "-"]) for _ in range(k))
            if rng.chance(1, 5) and t:
                pos = rng.below(len(t))
                t = t[:pos] + rng.choice(["{", "}", ".", "\x00", "{{", "}}", "\"", "|"]) + t[pos + rng.below(2):]
            t = t[:200]
            if rng.chance(1, 25) and t:
                # long templates: around buffer sizes a reader implementation might use
                target = rng.choice([500, 4095, 4096, 4097, 8192, 32768, 70000] + ([1 << 20] if tier == "thorough" else []))
                t = (t + " ") * (target // (len(t) + 1) + 1)
                t = t[:target + rng.below(3)]
            elif rng.chance(1, 8) and seen_t:
                t = rng.choice(seen_t)          # the same template text again (same or another report, mode, level)
            if rng.chance(1, 12):
                t = "\ufeff" + t             # a byte-order mark in front: part of the template text, through a reader as through a string
            if len(t) <= 200:
                seen_t.append(t)
            L = "BTE"[rng.below(3)]
            mode = modes[i % len(modes)] if i < 4 * len(modes) else rng.choice(modes)
            if mode.startswith("fail:") and rng.chance(1, 2):
                mode = "fail:%d" % rng.below(max(1, len(t)))
            if mode.startswith("fail:"):
                # the failure after a prefix that may itself be a complete template, with different error values
                if rng.chance(1, 3) and t:
                    cut = [k for k in range(len(t) + 1) if t[:k].count("{{") == t[:k].count("}}")]
                    mode = "fail:%d" % rng.choice(cut)
                mode += ":" + rng.choice(["plain", "wrapeof", "patheof", "unexpected", "closed", "once", "once"])
                if mode.endswith(":once") and rng.chance(1, 2):
                    mode = "fail:%d:once" % rng.below(4)         # a transient failure within the first bytes
            ops.append("X3 %s %s %s %s %s" % (L, rng.choice(["en", "ja"]), core.hx(rng.choice(vecs)), mode, core.hx(t)))
        return ops

    def bucket(self, op, g):
        d = core.parse_kv(g)
        return op.split(" ")[4].split(":")[0] + "/" + d.get("ref", "?").split(":")[0]

    def expected(self, ops, go):
        mops = []
        for op, g in zip(ops, go):
            d = core.parse_kv(g)
            mops.append("XM %s %s" % (op.split(" ")[4], _short(d.get("ref", "none"))))
        return core.run_sharded(core.MODEL, mops)

    def cmp(self, g):
        return _short(core.parse_kv(g).get("lib"))

    def cmp_model(self, m):
        return m

    def judge_line(self, op, g, m):
        d = core.parse_kv(g)
        lib, ref = d.get("lib", ""), d.get("ref", "")
        mode = op.split(" ")[4]
        out, _, err = lib.partition("|")
        msgs = []
        if mode in ("nilreader",) or mode.startswith("fail:"):
            if err != "InvalidTemplate" or out != "noout":
                msgs.append("%s reader: result %s" % (mode, lib))
        elif mode == "nilreport" or mode.startswith("nilreport+"):
            if err != "NullPointer" or out != "noout":
                msgs.append("nil report: result %s" % lib)
        elif ref.startswith("out:"):
            if out != ref or err != "-":
                msgs.append("library output %s, text/template yields %s" % (_txt(out[4:]) if out.startswith("out:") else lib, _txt(ref[4:])))
        else:
            if err != "InvalidTemplate" or out != "noout":
                msgs.append("template %s but library result is %s" % (ref, lib))
        return msgs


_reg(ExportProp())


# ------------------------------------------------------------------------------------------ histories, concurrency

from .vec import special_vector  # noqa: E402


def gen_history(rng, nshared=0, shared_desc=None, maxops=40):
    """a random history: objects of random version/level, decodes of valid and invalid strings
    (also into used objects), query bursts, views, reports, exports; returns (ops, slotinfo)"""
    from . import vec
    ops = []
    slots = list(shared_desc or [])          # (ver, levelIndex, shared?)
    n = 3 + rng.below(maxops)
    for _ in range(n):
        c = rng.below(100)
        priv = [i for i, s in enumerate(slots) if not s[2]]
        if c < 12 or not slots or (not priv and c < 40):
            ver, L = rng.choice([2, 3]), rng.below(3)
            ops.append("N%d%s" % (ver, "BTE"[L]))
            slots.append((ver, L, False))
        elif c < 40 and priv:
            i = rng.choice(priv)
            ver, L, _ = slots[i]
            k = rng.below(12)
            if k >= 10:
                s = special_vector(rng, ver, L)
            elif k < 6:
                s = vec.rand_v3(rng, L) if ver == 3 else vec.rand_v2(rng, L)
            elif k < 8:
                s = (vec.rand_v3(rng, 2) if ver == 3 else vec.rand_v2(rng, 2))       # maybe too high a level
            elif k < 9:
                s = (vec.rand_v3(rng, L) if ver == 3 else vec.rand_v2(rng, L))
                if rng.chance(1, 2):
                    # complete and valid, but two tokens swapped (v2: misordered; v3: another spelling, or the prefix moved)
                    tk = s.split("/")
                    ta, tb = rng.below(len(tk)), rng.below(len(tk))
                    tk[ta], tk[tb] = tk[tb], tk[ta]
                    s = "/".join(tk)
                else:
                    p = rng.below(max(1, len(s)))
                    s = s[:p] + rng.choice(["", "/", ":", "x", "X:X/"]) + s[p + rng.below(2):]
            else:
                s = rng.choice(["", "/", "CVSS:3.1", "AV:N", "CVSS:3.1/AV:N/AV:N"])
            ops.append("D%d,%s" % (i, core.hx(s)))
        elif c < 75:
            i = rng.below(len(slots))
            for _ in range(1 + rng.below(4)):
                ops.append("Q%d" % i)
        elif c < 82:
            i = rng.below(len(slots))
            ver, L, sh = slots[i]
            if L > 0:
                l = rng.below(L)
                ops.append("V%d,%s" % (i, "BTE"[l]))
                slots.append((ver, l, sh))
        elif c < 92:
            i = rng.below(len(slots))
            if slots[i][0] == 3:
                ops.append("R%d,%s" % (i, rng.choice(["en", "ja", "fr", "-", "-", "ja", "ko", "zh", "ru"])))
        else:
            i = rng.below(len(slots))
            if slots[i][0] == 3:
                ops.append("X%d,%d" % (i, rng.below(10)))
    for i in range(len(slots)):
        ops.append("Q%d" % i)
    for o in ops:
        if o[0] == "D":
            k = int(o[1:].split(",", 1)[0])
            assert k < len(slots) and not slots[k][2], "generator bug: decode into a shared or unknown slot"
    return ops, slots


STRUCT = ("PANIC", "bad", "noreport", "ok", "same", "nil", "noview")


def history_facts(hops, results, skip=0):
    """What C15/C16 say about one history, independent of the *values* the queries return (those are the business of
    the other properties): for every operation after the first `skip`, whether its result equals the first result of
    the same operation on the same object since the last decode into that object (queries, reports, exports), and
    whether decoding the same string at the same kind of decoder gave the same outcome.  Structural results
    (ok / nil / noview / noreport / PANIC) are kept verbatim.  Returns (facts, keyed) where keyed maps a
    cross-history key (ver, root level, view level, vector, op) to the result, for objects decoded exactly once."""
    slots = []      # (ver, level, root)
    rootslot = set()  # indices of the slots created by a constructor (not views)
    roots = {}      # root -> [epoch, ndecodes, last vector or None, root level]
    first = {}
    facts = []
    keyed = []
    for i, op in enumerate(hops):
        res = results[i - skip] if i >= skip and i - skip < len(results) else None
        k = op[:1]
        fact = None
        try:
            if k == "N":
                root = len(roots)
                roots[root] = [0, 0, None, op[2:]]
                rootslot.add(len(slots))
                slots.append((op[1], op[2:], root))
                fact = res
            elif k == "D":
                a = op[1:].split(",", 1)
                ver, lvl, root = slots[int(a[0])]
                st = roots[root]
                st[0] += 1
                st[1] += 1
                own = (lvl == st[3])
                st[2] = a[1] if (res is not None and res.startswith("r=1") and st[1] == 1 and own) else None
                if res is None:
                    st[2] = None
                key = ("D", ver, lvl, a[1])
                if res is not None:
                    if st[1] == 1 and own:
                        # into a fresh object: the outcome may depend on the string only
                        fact = ("same-outcome", first.setdefault(key, res) == res)
                        keyed.append(((ver, lvl, lvl, a[1], "D"), res))
                    else:
                        # into a used object the receiver's state is an input of Decode: outcome kept verbatim
                        fact = res
            elif k == "V":
                a = op[1:].split(",", 1)
                ver, lvl, root = slots[int(a[0])]
                if res is None or res == "ok":
                    if "BTE".index(a[1]) < "BTE".index(lvl):
                        slots.append((ver, a[1], root))
                fact = res
            elif k in "QRX":
                idx = op[1:].split(",", 1)[0]
                ver, lvl, root = slots[int(idx)]
                st = roots[root]
                if res is not None:
                    if res in STRUCT:
                        fact = res
                    else:
                        # the same slot (the same chain of accessors), not merely the same object and level: whether two
                        # different views of one object agree is C14's statement
                        key = (k, op.split(",", 1)[1] if "," in op else "", int(idx), st[0])
                        fact = ("same-as-first", first.setdefault(key, res) == res)
                        if st[2] is not None and int(idx) in rootslot:
                            # (the object's own slot only: what its views answer is compared with it by C14)
                            keyed.append(((ver, st[3], lvl, st[2], k + (op.split(",", 1)[1] if "," in op else "")), res))
            else:
                fact = res
        except (ValueError, IndexError):
            fact = ("malformed-history", res)
        if i >= skip:
            facts.append(fact)
    return facts, keyed


class HistoryProp(SimpleProp):
    prop = "C15"
    needs_extract = True
    needs_effects = True
    lean_modules = ["CvssVerif.Props.C15"]
    theorems = ["CvssVerif.Props.C15." + t for t in ("queries_are_pure", "repeated_queries", "history_free", "twin",
                                                     "code_writes_only_in_decode", "code_effects_cover_model")]
    rule = ("seeded random histories inside one process over pools of 1-8 objects of both versions and all levels: decodes of valid, "
            "invalid and level-mismatched strings (also into used objects), bursts of 1-4 repeated full query sets, views through the "
            "accessors (aliases of the object), report construction in three languages, template export; every operation's result compared "
            "with the Lean model; each history compared with its twin (same decodes, no queries); distinct by history")
    assumptions = ["no package-level state is written after init: checked behaviourally by mixed histories in one process and by the race "
                   "detector runs of C16, not by static analysis"]

    def ops(self, tier, rng):
        n = 2500 if tier == "quick" else 250000
        self._twins = {}
        self._pairs = []
        ops = []
        for _ in range(n):
            h, _ = gen_history(rng)
            ops.append("H " + ";".join(h))
            twin = [o for o in h if o[0] in "NDV"] + [o for o in h[-200:] if False]
            # twin: same constructors, decodes and views, none of the queries, then the same final dumps
            nslots = sum(1 for o in h if o[0] == "N" or o[0] == "V")
            twin += ["Q%d" % i for i in range(nslots)]
            ops.append("H " + ";".join(twin))
        # order pairs: two vectors that differ in one respect (version, one metric, one level) processed in both orders in
        # separate histories; whatever is queried for either must not depend on the order (process-wide memo keyed too coarsely)
        from . import vec
        for _ in range(60 if tier == "quick" else 3000):
            L = rng.below(3)
            base = vec.rand_v3(rng, L, perm=False)
            if rng.chance(2, 3):
                base = base.replace("/S:U/", "/S:C/").replace("/C:N", "/C:H").replace("/I:N", "/I:H").replace("/C:L", "/C:H")
            other = base.replace("CVSS:3.0", "CVSS:3.x").replace("CVSS:3.1", "CVSS:3.0").replace("CVSS:3.x", "CVSS:3.1")
            lv = "BTE"[L]
            a = ["N3" + lv, "D0," + core.hx(base), "Q0", "R0,en", "N3" + lv, "D1," + core.hx(other), "Q1", "R1,en", "Q0", "Q1"]
            b = ["N3" + lv, "D0," + core.hx(other), "Q0", "R0,en", "N3" + lv, "D1," + core.hx(base), "Q1", "R1,en", "Q0", "Q1"]
            # (each pair is followed by its twin so that the pairing by twos of judge_all stays intact)
            for h in (a, b):
                ops.append("H " + ";".join(h))
                ops.append("H " + ";".join([o for o in h if o[0] in "ND"] + ["Q0", "Q1"]))
            self._pairs.append(("H " + ";".join(a), "H " + ";".join(b)))
        return ops

    def cmp_op(self, op, line):
        return tuple(history_facts(op[2:].split(";"), line.split(";"))[0])

    def judge_all(self, ops, go):
        msgs = []
        seen = {}
        for k in range(len(ops)):
            h = ops[k][2:].split(";")
            g = go[k].split(";")
            facts, keyed = history_facts(h, g)
            for i, fct in enumerate(facts):
                if isinstance(fct, tuple) and fct[-1] is False:
                    what = ("decoding the same string into another fresh object gave a different outcome" if fct[0] == "same-outcome" else
                            "operation %d (%s) returned something else than the same operation did earlier on the same "
                            "object with no decode in between" % (i, h[i]))
                    msgs.append((what, ops[k]))
                    break
            # the same vector decoded into a fresh object of the same kind gives the same query results in every history
            for key, res in keyed:
                first = seen.setdefault(key, (k, res))
                if first[1] != res:
                    msgs.append(("%s of a %s-level v%s object decoded from the same vector differs from history #%d: the result depends "
                                 "on what the process did before" % (key[4], key[1], key[0], first[0]), ops[k]))
                    break
        self.cross_classes = len(seen)
        # order pairs, each history in a process of its own: the same vector must be answered the same in both orders
        for a, b in getattr(self, "_pairs", []):
            ga = core.run_sharded(core.HARNESS, [a], shards=1)[0].split(";")
            gb = core.run_sharded(core.HARNESS, [b], shards=1)[0].split(";")
            ka = dict(history_facts(a[2:].split(";"), ga)[1])
            kb = dict(history_facts(b[2:].split(";"), gb)[1])
            for key in ka:
                if key in kb and ka[key] != kb[key]:
                    msgs.append(("%s of the %s-level object decoded from one vector differs between two fresh processes that handled the "
                                 "same two vectors in opposite orders" % (key[4], key[1]), a + "\n" + b))
                    break
        for k in range(0, len(ops) - 1, 2):
            h = ops[k][2:].split(";")
            g = go[k].split(";")
            t = ops[k + 1][2:].split(";")
            tg = go[k + 1].split(";")
            if len(g) != len(h) or len(tg) != len(t):
                msgs.append(("history returned %d results for %d operations" % (len(g), len(h)), ops[k]))
                continue
            nslots = sum(1 for o in h if o[0] in "NV")
            # (a panic inside a history is C12's statement; here it only shows up as a fact that differs from the model's)
            # final dumps equal the twin's
            if g[len(g) - nslots:] != tg[len(tg) - nslots:]:
                for i in range(nslots):
                    if g[len(g) - nslots + i] != tg[len(tg) - nslots + i]:
                        msgs.append(("object %d ends differently from its twin that saw the same decodes but no queries" % i, ops[k]))
                        break
            # repeated identical queries return identical results
            for i in range(1, len(h)):
                if h[i][0] == "Q" and h[i] == h[i - 1] and g[i] != g[i - 1]:
                    msgs.append(("repeating %s returned a different result" % h[i], ops[k]))
                    break
        return msgs


_reg(HistoryProp())


class ConcProp:
    prop = "C16"
    needs_extract = True
    needs_effects = True
    lean_modules = ["CvssVerif.Props.C16"]
    theorems = ["CvssVerif.Props.C16." + t for t in ("cvss_disciplined", "interleaving_eq_sequential", "shared_unchanged",
                                                     "no_shared_state_written")]
    trusted_base = TB_COMMON + ["the Go race detector (harness built with -race) for the absence of data races on the executed schedules"]
    assumptions = ["PARTIAL: the Go memory model and scheduler are not modelled; the theorem covers all interleavings of the abstract "
                   "operations, the race detector and the concurrent-vs-sequential comparison cover the schedules that actually ran",
                   "discipline of the property: a goroutine decodes only into its own objects; shared objects are only queried"]

    def run(self, tier, rng, seed):
        from . import vec
        out = Outcome()
        out.rule = ("rounds of 16 goroutines started together (harness built with -race): each runs a seeded random history of decodes into "
                    "its own objects, query bursts, views, report construction and export on its own and on shared already-decoded objects "
                    "of every level and version; per-goroutine results compared with the sequential run and with the Lean model; distinct by history")
        try:
            race = core.build_harness(race=True)
        except core.BuildError as e:
            out.violations.append(("build", "cannot build the harness with -race: %s" % str(e)[-300:], "", ""))
            return out
        rounds = 8 if tier == "quick" else 64
        G = 16
        total = 0
        kinds = {}
        for r in range(rounds):
            shared = []
            desc = []
            for ver in (3, 2):
                for L in range(3):
                    i = len(desc)
                    shared.append("N%d%s" % (ver, "BTE"[L]))
                    shared.append("D%d,%s" % (i, core.hx(vec.rand_v3(rng, L) if ver == 3 else vec.rand_v2(rng, L))))
                    desc.append((ver, L, True))
            hs = []
            kind = "random histories"
            nrep = 300 if tier == "quick" else 1500
            if r % 3 == 1:
                # export storm: every goroutine exports over and over, each with its own template text, from reports of
                # shared and of its own objects (rare interleavings inside the export path)
                kind = "export storm"
                for g in range(G):
                    own = len(desc)
                    h = ["N3%s" % "BTE"[g % 3], "D%d,%s" % (own, core.hx(vec.rand_v3(rng, g % 3, perm=False)))]
                    for k in range(nrep):
                        # every other export uses one of the four texts that define the sub-template "cell" (neighbouring goroutines use
                        # different ones at the same time): a shared template name space would render one with another's definition
                        h.append("X%d,%d" % ((own if k % 2 else g % 3), (6 + (g + k // 7) % 4) if k % 2 == 0 else (g + (k // 97)) % 6))
                    hs.append(";".join(h))
            elif r % 4 == 3:
                # decode/encode storm (both versions) after every goroutine has had a complete but misordered v2 vector rejected
                kind = "decode/encode storm"
                for g in range(G):
                    own = len(desc)
                    mis = vec.rand_v2(rng, 2).split("/")
                    mis[4], mis[5] = mis[5], mis[4]
                    h = ["N2E", "D%d,%s" % (own, core.hx("/".join(mis)))]
                    for k in range(nrep // 6):
                        ver = 2 if k % 2 else 3
                        Lk = (g + k) % 3
                        h.append("N%d%s" % (ver, "BTE"[Lk]))
                        slot = own + 1 + k
                        sv = vec.rand_v2(rng, Lk) if ver == 2 else vec.rand_v3(rng, Lk)
                        # every third decode fails, in all goroutines at about the same time and by the same error path: an unknown
                        # metric name (the deferred not-supported-metric error), a repeated metric, an empty value
                        if k % 3 == 0:
                            sv = [sv + "/ZZ:N", sv + "/" + sv.split("/")[-1], sv + "/ZZ:"][(k // 3) % 3]
                        h.append("D%d,%s" % (slot, core.hx(sv)))
                        h.append("Q%d" % slot)
                        h.append("Q%d" % (g % 6))
                    hs.append(";".join(h))
            elif r % 3 == 2:
                # report storm: reports in different languages (and with no language option) built concurrently
                kind = "report storm"
                for g in range(G):
                    own = len(desc)
                    h = ["N3%s" % "BTE"[g % 3], "D%d,%s" % (own, core.hx(vec.rand_v3(rng, g % 3, perm=False)))]
                    for k in range(nrep // 3):
                        h.append("R%d,%s" % ((own if k % 2 else g % 3), ["ja", "-", "en", "fr", "-", "ja"][(g + k // 31) % 6]))
                        if k % 10 == 0:
                            h.append("Q%d" % (g % 6))
                    hs.append(";".join(h))
            else:
                for g in range(G):
                    h, _ = gen_history(rng, shared_desc=desc, maxops=60)
                    hs.append(";".join(h))
            kinds[kind] = kinds.get(kind, 0) + 1
            path = os.path.join(core.BUILD, "conc-%d.txt" % r)
            with open(path, "w") as f:
                f.write(";".join(shared) + "\n" + "\n".join(hs) + "\n")
            import subprocess
            p = subprocess.run([race, "conc", path], stdout=subprocess.PIPE, stderr=subprocess.PIPE, timeout=1200,
                               env=dict(os.environ, GORACE="halt_on_error=0"))
            os.remove(path)
            err = p.stderr.decode("utf-8", "replace")
            lines = p.stdout.decode("utf-8", "replace").split("\n")
            if "DATA RACE" in err or p.returncode != 0:
                out.violations.append(("conc round %d" % r, "race detector / runtime: exit %d: %s" % (p.returncode, err[:1500].replace("\n", " | ")),
                                       ";".join(shared), "\n".join(hs)[:3000]))
                continue
            # model: set-up followed by the goroutine's history, results after the set-up
            mops = ["H " + ";".join(shared) + ";" + h for h in hs]
            mo = core.run_sharded(core.MODEL, mops)
            nset = len(shared)
            for g in range(G):
                c = lines[2 * g][2:] if 2 * g < len(lines) else ""
                s = lines[2 * g + 1][2:] if 2 * g + 1 < len(lines) else ""
                total += len(hs[g].split(";"))
                if c != s:
                    out.violations.append(("H " + hs[g], "goroutine %d got different results concurrently and sequentially" % g, c[:1500], s[:1500]))
                m = ";".join(mo[g].split(";")[nset:])
                allops = shared + hs[g].split(";")
                if history_facts(allops, s.split(";"), skip=nset)[0] != history_facts(allops, m.split(";"), skip=nset)[0]:
                    out.mismatches += 1
                    if len(out.mismatch_examples) < 5:
                        out.mismatch_examples.append({"stream": "conc", "op": mops[g][:3000], "impl": s[:1500], "model": m[:1500]})
                if "PANIC" in c and "PANIC" not in s:
                    out.violations.append(("H " + hs[g], "an operation panicked in goroutine %d when run concurrently, not when run sequentially" % g, c[:1500], ""))
            if r == 0:
                out.samples.append({"shared_setup": ";".join(shared)[:400], "goroutine_0": hs[0][:600], "result": lines[0][:300]})
        out.evaluations = total
        out.distinct = total
        out.hist = {"rounds": rounds, "goroutines": G, "operations": total, "round kinds": kinds}
        out.stream_info.append({"stream": "16 goroutines x %d rounds under -race" % rounds, "ops": total, "exhaustive": False,
                                "mismatches": out.mismatches, "violations": len(out.violations)})
        return out

    def replay(self, rp):
        return self.run("quick", core.Rng(1), 1)


_reg(ConcProp())
