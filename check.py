#!/usr/bin/env python3
"""Entry point of every registered command:  check.py <Cxx> [--tier quick|thorough] | --replay <file>

For one property: rebuild the harness from /repo's working tree (hooks on), make sure the Lean
proof obligations of the property still check (lake build + axiom audit), run the correspondence
streams (implementation vs Lean model, exact comparison on the property's projection), judge the
implementation's outputs with the specification oracle, write evidence, print the verdict."""
import argparse
import json
import os
import sys
import time

sys.path.insert(0, os.path.dirname(os.path.abspath(__file__)))
from vlib import core, props  # noqa: E402

ALLOWED_AXIOMS = {"propext", "Classical.choice", "Quot.sound"}


def audit(modules):
    """-> (list of {theorem, axioms}, error text)"""
    p = core.sh(["lake", "env", "lean", "--run", "Audit.lean"] + modules, cwd=core.LEAN, timeout=1800, check=False)
    out = []
    for line in p.stdout.splitlines():
        line = line.strip()
        if line.startswith("{"):
            try:
                out.append(json.loads(line))
            except Exception:
                pass
    return out, (p.stdout[-2000:] if p.returncode != 0 else "")


FORBIDDEN = ["sorry", "admit", "native_decide", "bv_decide", "implemented_by", "unsafe ", "maxHeartbeats 0"]


def hygiene():
    """textual scan of the Lean sources: nothing that would weaken what `theorem` means (comments ignored)"""
    import re
    hits = []
    for root, _, files in os.walk(core.LEAN):
        if ".lake" in root:
            continue
        for fn in files:
            if not fn.endswith(".lean"):
                continue
            path = os.path.join(root, fn)
            txt = open(path, encoding="utf-8").read()
            txt = re.sub(r"/-.*?-/", "", txt, flags=re.S)
            for ln, line in enumerate(txt.split("\n"), 1):
                code = line.split("--")[0]
                if re.match(r"\s*axiom\s", code):
                    hits.append("%s:%d: axiom" % (path, ln))
                for w in FORBIDDEN:
                    if w in code:
                        hits.append("%s: %s" % (os.path.relpath(path, core.LEAN), w.strip()))
    return hits


def leanchecker(mods):
    """independent re-check of the compiled property modules (thorough tier)"""
    p = core.sh(["lake", "env", "leanchecker"] + mods, cwd=core.LEAN, timeout=7200, check=False)
    return p.returncode == 0, p.stdout[-1500:]


def proof_obligations(spec):
    """build the property's modules, audit; returns dict with obligations/discharged/broken"""
    mods = spec.lean_modules
    ok, log = core.build_lean(["cvssmodel"] + mods)
    res = {"obligations": len(spec.theorems), "discharged": 0, "broken": [], "axioms": {}, "build_ok": ok}
    if not ok:
        errs = [l for l in log.splitlines() if "error" in l.lower() and "warning" not in l.lower()]
        res["broken"].append("lake build failed (a theorem or generated table no longer checks): " + (" | ".join(errs)[:1500] or log[-1500:]))
        return res
    listed, err = audit(mods)
    if err:
        res["broken"].append("audit failed: " + err)
    by = {d.get("theorem"): d for d in listed if "theorem" in d}
    for t in spec.theorems:
        d = by.get(t)
        if d is None:
            res["broken"].append("theorem missing: " + t)
            continue
        ax = set(d.get("axioms", []))
        res["axioms"][t] = sorted(ax)
        if not ax <= ALLOWED_AXIOMS:
            res["broken"].append("theorem %s depends on %s" % (t, sorted(ax - ALLOWED_AXIOMS)))
            continue
        res["discharged"] += 1
    res["obligations"] = max(1, len(spec.theorems))
    bad = hygiene()
    res["hygiene_hits"] = bad
    if bad:
        res["broken"].append("forbidden construct in the Lean sources: " + "; ".join(bad[:5]))
    return res


def main():
    ap = argparse.ArgumentParser()
    ap.add_argument("prop", nargs="?")
    ap.add_argument("--tier", default=os.environ.get("VERIF_TIER", "quick"))
    ap.add_argument("--replay")
    args = ap.parse_args()
    seed = int(os.environ.get("VERIF_SEED", "1"))
    t0 = time.time()

    if args.replay:
        with open(args.replay) as f:
            rp = json.load(f)
        prop = rp["property"]
    else:
        prop = args.prop
    if prop not in props.REGISTRY:
        print("unknown property %s" % prop)
        return 2
    spec = props.REGISTRY[prop]
    tier = args.tier if args.tier in ("quick", "thorough") else "quick"

    try:
        core.build_harness()
    except core.BuildError as e:
        print("BUILD-ERROR: harness does not build against /repo: %s" % str(e)[-1500:])
        return 2

    # translators: regenerate the Lean tables from /repo. A translator that no longer understands the source is a
    # broken tie, not a build error: it is reported like a theorem that no longer checks, after the search for a
    # failing input.
    broken_ties = []
    if getattr(spec, "needs_extract", False):
        try:
            props.run_extract()
        except core.BuildError as e:
            broken_ties.append("translator go/extract (names tables -> Generated/Names.lean) failed on /repo, the generated "
                               "tables are stale: %s" % str(e)[-600:])
    if getattr(spec, "needs_effects", False):
        try:
            odd = props.run_effects()
            for o in odd[:12]:
                broken_ties.append("write-set facts (go/effects): " + o)
        except core.BuildError as e:
            broken_ties.append("translator go/effects (write sets -> Generated/Effects.lean) failed on /repo, the generated "
                               "table is stale: %s" % str(e)[-600:])
    # tie by translation of the score and severity functions (C01-C06, C13): Generated/Formulas.lean is rewritten from the
    # source text and Props/Src.lean (source = model, for every object) is re-checked
    ftie = None
    if prop in props.FORMULA_DEFS and not args.replay:
        ftie = props.run_formulas(prop)
    # tie by translation of the per-metric types (C20; and C01-C05, C13 for the Value / IsChanged methods their equations
    # read): Generated/Tables.lean is rewritten from the source text and Props/SrcTab.lean is re-checked
    ttie = None
    if prop in props.TABLE_DEFS and not args.replay:
        ttie = props.run_tables(prop)
    # tie by translation of the decoders / encoders / validity checks (C07-C12): Generated/Decoders.lean is rewritten from
    # the source text and Props/SrcDec.lean is re-checked
    dtie = None
    if prop in props.DEC_RELEVANT and not args.replay:
        dtie = props.run_decoders(prop)
    po = proof_obligations(spec)
    po["broken"] = broken_ties + po["broken"]
    if dtie and dtie["status"] == "proved":
        listed, err = audit([props.DEC_MODULE])
        by = {d.get("theorem"): d for d in listed if "theorem" in d}
        for t in props.DEC_THEOREMS:
            full = props.DEC_MODULE + "." + t
            d = by.get(full)
            po["obligations"] += 1
            if d is None:
                po["broken"].append("theorem missing: " + full)
                continue
            ax = set(d.get("axioms", []))
            po["axioms"][full] = sorted(ax)
            if ax <= ALLOWED_AXIOMS:
                po["discharged"] += 1
            else:
                po["broken"].append("theorem %s depends on %s" % (full, sorted(ax - ALLOWED_AXIOMS)))
    if ttie and ttie["status"] == "proved" and prop == "C20":
        listed, err = audit([props.TAB_MODULE])
        by = {d.get("theorem"): d for d in listed if "theorem" in d}
        for t in props.TAB_THEOREMS:
            full = props.TAB_MODULE + "." + t
            d = by.get(full)
            po["obligations"] += 1
            if d is None:
                po["broken"].append("theorem missing: " + full)
                continue
            ax = set(d.get("axioms", []))
            po["axioms"][full] = sorted(ax)
            if ax <= ALLOWED_AXIOMS:
                po["discharged"] += 1
            else:
                po["broken"].append("theorem %s depends on %s" % (full, sorted(ax - ALLOWED_AXIOMS)))
    if ftie and ftie["status"] == "proved":
        listed, err = audit([props.SRC_MODULE])
        by = {d.get("theorem"): d for d in listed if "theorem" in d}
        for t in props.SRC_THEOREMS:
            full = props.SRC_MODULE + "." + t
            d = by.get(full)
            po["obligations"] += 1
            if d is None:
                po["broken"].append("theorem missing: " + full)
                continue
            ax = set(d.get("axioms", []))
            po["axioms"][full] = sorted(ax)
            if ax <= ALLOWED_AXIOMS:
                po["discharged"] += 1
            else:
                po["broken"].append("theorem %s depends on %s" % (full, sorted(ax - ALLOWED_AXIOMS)))
    # tie by translation of the report constructors (C17)
    wtie = None
    if prop == "C17" and not args.replay:
        wtie = props.run_wiring()
        if wtie["status"] == "proved":
            listed, err = audit([props.REP_MODULE])
            by = {d.get("theorem"): d for d in listed if "theorem" in d}
            for t in props.REP_THEOREMS:
                full = props.REP_MODULE + "." + t
                d = by.get(full)
                po["obligations"] += 1
                if d is None:
                    po["broken"].append("theorem missing: " + full)
                    continue
                ax = set(d.get("axioms", []))
                po["axioms"][full] = sorted(ax)
                if ax <= ALLOWED_AXIOMS:
                    po["discharged"] += 1
                else:
                    po["broken"].append("theorem %s depends on %s" % (full, sorted(ax - ALLOWED_AXIOMS)))
    # tie by translation of the template-export glue (C19)
    gtie = None
    if prop == "C19" and not args.replay:
        gtie = props.run_glue()
        if gtie["status"] == "proved":
            listed, err = audit([props.GLUE_MODULE])
            by = {d.get("theorem"): d for d in listed if "theorem" in d}
            for t in props.GLUE_THEOREMS:
                full = props.GLUE_MODULE + "." + t
                d = by.get(full)
                po["obligations"] += 1
                if d is None:
                    po["broken"].append("theorem missing: " + full)
                    continue
                ax = set(d.get("axioms", []))
                po["axioms"][full] = sorted(ax)
                if ax <= ALLOWED_AXIOMS:
                    po["discharged"] += 1
                else:
                    po["broken"].append("theorem %s depends on %s" % (full, sorted(ax - ALLOWED_AXIOMS)))
    # the three translation ties composed (C03, C05): translated decoder, then translated score functions = FIRST / model scores
    e2e = "not used by this property"
    if prop in ("C03", "C05") and not args.replay:
        if ftie and ftie["status"] == "proved" and ttie and ttie["status"] == "proved":
            dall = props.run_decoders("C12")
            if dall["status"] == "proved":
                ok, log = core.build_lean([props.ALL_MODULE])
                if ok:
                    listed, err = audit([props.ALL_MODULE])
                    by = {d.get("theorem"): d for d in listed if "theorem" in d}
                    for t in props.ALL_THEOREMS:
                        full = props.ALL_MODULE + "." + t
                        d = by.get(full)
                        po["obligations"] += 1
                        if d is None:
                            po["broken"].append("theorem missing: " + full)
                            continue
                        ax = set(d.get("axioms", []))
                        po["axioms"][full] = sorted(ax)
                        if ax <= ALLOWED_AXIOMS:
                            po["discharged"] += 1
                        else:
                            po["broken"].append("theorem %s depends on %s" % (full, sorted(ax - ALLOWED_AXIOMS)))
                    e2e = "proved: Props/SrcAll.lean (translated decoder -> translated score functions -> specification) checks against the source text of this run"
                else:
                    errs = [l for l in log.splitlines() if l.startswith("error:")]
                    po["broken"].append("Props/SrcAll.lean does not build although the three translation ties check: " + " | ".join(errs)[:600])
                    e2e = "broken"
            else:
                e2e = "not composed in this run: the decoder translation is %s (%s)" % (dall["status"], ", ".join(dall.get("not_understood", [])[:8]))
        else:
            e2e = "not composed in this run: the formula or table translation is not 'proved'"
    tie_lost = bool(ftie and ftie["status"] == "lost" and ftie["relevant"])
    tab_lost = bool(ttie and ttie["status"] == "lost" and ttie["relevant"])
    dec_lost = bool(dtie and dtie["status"] == "lost" and dtie["relevant"])
    wir_lost = bool(wtie and wtie["status"] == "lost")
    glue_lost = bool(gtie and gtie["status"] == "lost")
    if wir_lost and tier == "quick":
        tier = "thorough"        # C17: the thorough streams are the widened search
    if (tie_lost or tab_lost or dec_lost or glue_lost) and tier == "quick":
        tier_run = "escalated"   # (C19: ten times the quick tier's templates; the thorough tier's 200 000 take half an hour)
    else:
        tier_run = tier
    if tier == "thorough" and not args.replay and not po["broken"]:
        tie_mods = []
        if ftie and ftie["status"] == "proved":
            tie_mods.append(props.SRC_MODULE)
        if ttie and ttie["status"] == "proved":
            tie_mods.append(props.TAB_MODULE)
        if dtie and dtie["status"] == "proved":
            tie_mods.append(props.DEC_MODULE)
        if wtie and wtie["status"] == "proved":
            tie_mods.append(props.REP_MODULE)
        if gtie and gtie["status"] == "proved":
            tie_mods.append(props.GLUE_MODULE)
        ok, log = leanchecker(spec.lean_modules + tie_mods)
        po["leanchecker"] = "ok" if ok else log
        if not ok:
            po["broken"].append("leanchecker rejects the compiled module: " + log[-500:])
    if prop in ("C01", "C02", "C03", "C04", "C05", "C06", "C13") and not args.replay:
        # the soft binary64 of the model against the hardware Float (interpreted Lean): 20 000 random operand pairs per
        # operation in the quick tier, 1 000 000 in the thorough tier, plus boundary cases and constants
        n = "20000" if tier == "quick" else "1000000"
        p = core.sh(["lake", "env", "lean", "--run", "CvssVerif/Test/F64Test.lean", n], cwd=core.LEAN, timeout=3600, check=False)
        po["f64_selftest"] = p.stdout.strip().splitlines()[-1] if p.stdout.strip() else "no output"
        if p.returncode != 0:
            po["broken"].append("soft-float self-test against the hardware Float failed: " + p.stdout[-500:])
    rng = core.Rng(seed)
    if args.replay:
        outcome = spec.replay(rp)
    else:
        outcome = spec.run(tier_run, rng, seed)
    if tie_lost:
        msg = ("tie by translation lost: the source text of %s is understood by go/formulas but is no longer provably the model's "
               "(Props/Src.lean does not check: %s); the search was widened (%s streams, %d evaluations)" % (
                   ", ".join(ftie["relevant"]), ftie["note"][:400], tier_run, outcome.evaluations))
        if prop in props.FORMULA_TIE_REQUIRED:
            po["broken"].append(msg)
        else:
            print("NOTE: " + msg + "; this property's domain is enumerated by the correspondence, which stands")
    if tab_lost:
        msg = ("tie by translation lost: the source text of %s is understood by go/tables but is no longer provably the model's "
               "(Proofs/Tables.lean does not check: %s); the search was widened (%s streams, %d evaluations)" % (
                   ", ".join(ttie["relevant"][:12]), ttie["note"][:400], tier_run, outcome.evaluations))
        if prop == "C20" or prop in props.FORMULA_TIE_REQUIRED:
            po["broken"].append(msg)
        else:
            print("NOTE: " + msg + "; this property's domain is enumerated by the correspondence, which stands")
    if wir_lost:
        po["broken"].append("tie by translation lost: the report constructors of /repo/v3/report are understood by go/wiring but what their fields are "
                            "initialised from is no longer the schema of C17 (Props/SrcRep.lean does not check: %s); the search was widened (%d "
                            "evaluations)" % (wtie["note"][:500], outcome.evaluations))
    if glue_lost:
        po["broken"].append("tie by translation lost: the template-export glue of /repo/v3/report is understood by go/glue but is no longer provably the "
                            "model's exportWith / exportWithString (Props/SrcGlue.lean does not check: %s); the search was widened (%d "
                            "evaluations)" % (gtie["note"][:500], outcome.evaluations))
    if dec_lost:
        po["broken"].append("tie by translation lost: the source text of %s is understood by go/decoders / go/tables but is no longer provably "
                            "the model's (Proofs/Decoders.lean or Proofs/Tables.lean does not check: %s); the search was widened (%s streams, "
                            "%d evaluations)" % (", ".join(dtie["relevant"][:12]), dtie["note"][:400], tier_run, outcome.evaluations))
    known = core.load_known()
    verdict = props.conclude(prop, spec, po, outcome, known)

    ev = {
        "property_id": prop,
        "tier": tier,
        "seed": seed,
        "level": "proof",
        "coverage": {
            "obligations": po["obligations"],
            "discharged": po["discharged"],
            "checker_cmd": "cd lean && lake build %s && lake env lean --run Audit.lean %s" % (
                " ".join(spec.lean_modules), " ".join(spec.lean_modules)),
            "trusted_base": spec.trusted_base,
            "theorems": po["axioms"],
            "broken_obligations": po["broken"],
            "source_hygiene_hits": po.get("hygiene_hits", []),
            "leanchecker": po.get("leanchecker", "not run in this tier"),
            "f64_selftest": po.get("f64_selftest", "not applicable to this property"),
            "formula_translation": ({
                "status": ftie["status"], "translator": ftie["translator"], "functions_differing_from_pinned_tree": ftie["changed"],
                "functions_no_longer_provably_the_model": ftie.get("failed", []),
                "functions_outside_the_translators_subset": ftie.get("not_understood", []),
                "of_which_this_property_is_about": ftie["relevant"], "translator_output": ftie["note"][:600],
                "module": props.SRC_MODULE, "streams_run": tier_run,
                "meaning": {"proved": "every translated function equals the model's for all objects/doubles: this property's theorems are about the source text",
                            "not-understood": "a function this property is about is outside the translator's subset (it carries the reference text, nothing is claimed about it); the tie of this run is the correspondence alone",
                            "lost-elsewhere": "an equality about a function this property is not about no longer checks; those it is about do",
                            "lost": "the source is understood but no longer provably the model; search widened"}[ftie["status"]]}
                if ftie else "not used by this property"),
            "table_translation": ({
                "status": ttie["status"], "translator": ttie["translator"], "functions_translated": ttie.get("functions", 0),
                "definitions_differing_from_pinned_tree": ttie["changed"][:40],
                "functions_no_longer_provably_the_model": ttie.get("failed", [])[:40],
                "functions_outside_the_translators_subset": ttie.get("not_understood", [])[:60],
                "of_which_this_property_is_about": ttie["relevant"][:40], "translator_output": ttie["note"][:600],
                "module": props.TAB_MODULE,
                "meaning": {"proved": "every per-metric function this property is about (GetXxx, String, Value, validity, IsChanged) as translated from the source text equals the model's for all strings / integers",
                            "not-understood": "a function this property is about is outside the translator's subset (it carries the reference text, nothing is claimed about it); the tie of this run is the correspondence alone",
                            "lost-elsewhere": "an equality about a function this property is not about no longer checks; those it is about do",
                            "lost": "the source is understood but no longer provably the model; search widened"}[ttie["status"]]}
                if ttie else "not used by this property"),
            "decoder_translation": ({
                "status": dtie["status"], "translator": dtie["translator"], "functions_translated": dtie.get("functions", 0),
                "definitions_differing_from_pinned_tree": dtie["changed"][:40],
                "functions_no_longer_provably_the_model": dtie.get("failed", [])[:40],
                "functions_outside_the_translators_subset": dtie.get("not_understood", [])[:60],
                "of_which_this_property_is_about": dtie["relevant"][:40], "translator_output": dtie["note"][:600],
                "module": props.DEC_MODULE,
                "meaning": {"proved": "every function this property is about (constructors, Decode, decodeOne, GetError, Encode, String, IsEmpty, GetVersion, the per-metric parsers and printers) as translated from the source text returns, for every object and every byte string, what the model's function returns, without a panic: this property's theorems are about the source text",
                            "not-understood": "a function this property is about is outside the translators' subset (it carries the reference text, nothing is claimed about it); the tie of this run is the correspondence alone",
                            "lost-elsewhere": "an equality about a function this property is not about no longer checks; those it is about do",
                            "lost": "the source is understood but no longer provably the model; search widened"}[dtie["status"]]}
                if dtie else "not used by this property"),
            "end_to_end_source": e2e,
            "export_glue_translation": ({"status": gtie["status"], "translator": gtie["translator"],
                                         "functions_outside_the_translators_subset": gtie["not_understood"],
                                         "translator_output": gtie["note"][:600], "module": props.GLUE_MODULE} if gtie else "not used by this property"),
            "report_wiring_translation": ({"status": wtie["status"], "translator": wtie["translator"],
                                           "constructors_outside_the_translators_subset": wtie["not_understood"],
                                           "translator_output": wtie["note"][:600], "module": props.REP_MODULE} if wtie else "not used by this property"),
            "names_tables_source": ("go/extract (source translator)" if props.NAMES_SOURCE == "ast" else
                                    "behavioural probe of the names functions on -130..130 (fallback; claims for integers outside that "
                                    "range are not covered in this run): " + props.NAMES_NOTE[:300]) if getattr(spec, "needs_extract", False) else "not used",
            "evaluations": outcome.evaluations,
            "distinct_nontrivial": outcome.distinct,
            "rule": outcome.rule,
            "samples": outcome.samples[:8],
            "exhaustive": outcome.exhaustive,
            "streams": outcome.stream_info,
            "input_distribution": outcome.hist,
            "correspondence_mismatches": outcome.mismatches,
            "other_property_violations_seen": outcome.other,
            "known_findings_matched": verdict["known"],
            "platform": core.go_info(),
            "library_hooks": "on (go build -tags verif)" if core.HOOKS else "OFF: /repo does not compile with -tags verif, "
                             "harness built against the exported API only: " + core.HOOKS_ERROR[-300:],
            "per_metric_api": "called directly (T3 / T2 operations)" if core.TABS_DIRECT else
                              "CHANGED: the harness's direct calls of the per-metric types' exported functions do not compile against "
                              "/repo; the T3 / T2 operations answer api=changed: " + core.TABS_ERROR[-300:],
        },
        "assumptions": spec.assumptions,
        "wall_s": round(time.time() - t0, 2),
        "violations": verdict["violations"],
    }
    if not args.replay:
        core.write_evidence(prop, ev)
    for line in verdict["lines"]:
        print(line)
    print("%s %s tier=%s seed=%d evaluations=%d obligations=%d/%d mismatches=%d violations=%d wall=%.1fs" % (
        "FAIL" if verdict["exit"] else "PASS", prop, tier, seed, outcome.evaluations, po["discharged"], po["obligations"],
        outcome.mismatches, verdict["violations"], time.time() - t0))
    return verdict["exit"]


if __name__ == "__main__":
    sys.exit(main())
