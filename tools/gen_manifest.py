#!/usr/bin/env python3
"""Writes MANIFEST.json from the registry (so that the manifest and check.py cannot drift)."""
import json, os, sys
ROOT = os.path.dirname(os.path.dirname(os.path.abspath(__file__)))
sys.path.insert(0, ROOT)
from vlib import props, manifest_text as T

checks = []
for pid in sorted(props.REGISTRY):
    t = T.TEXT[pid]
    checks.append({
        "property_id": pid,
        "quick_cmd": "python3 check.py %s --tier quick" % pid,
        "thorough_cmd": "python3 check.py %s --tier thorough" % pid,
        "evidence_file": "/verif/evidence/%s.json" % pid,
        "replay_cmd_template": "python3 check.py --replay {path}",
        "engine": "lean4-model+correspondence",
        "level_claimed": {"category": "proof", "text": t["level"], "design_ref": t["ref"]},
        "level_note": t["note"],
        "technique": t["technique"],
    })
allp = [json.loads(l)["id"] for l in open(os.path.join(ROOT, "properties.jsonl"))]
na = [{"property_id": p, "reason": T.NOT_YET.get(p, "check not built yet in this round; see DESIGN.md section 5 for the plan")}
      for p in allp if p not in props.REGISTRY]
m = {
    "version": 1,
    "setup_cmd": "bash setup.sh",
    "hooks": {
        "guard": "verif",
        "enable": "go build -tags verif (the harness in go/harness is built with it on every run)",
        "baseline_off_cmd": "cd /repo && GOFLAGS=-mod=mod GOPROXY=off GOSUMDB=off GOTOOLCHAIN=local go build ./... && GOFLAGS=-mod=mod GOPROXY=off GOSUMDB=off GOTOOLCHAIN=local go test -json -vet=off -count=1 -timeout 25m ./...",
        "source_commits": T.HOOK_COMMITS,
        "add_only": True,
    },
    "engines": [
        {"name": "lean4-model+correspondence", "path": "/verif/lean",
         "serves_properties": sorted(props.REGISTRY),
         "kind_free_text": "Lean 4 model of go-cvss (soft binary64, decoders, encoders, tables) with property theorems checked by the kernel; "
                           "tied to /repo on every run by a differential correspondence (Go harness vs compiled Lean driver) and a "
                           "specification oracle executed from the Lean Spec modules"},
    ],
    "checks": checks,
    "not_applicable": na,
    "notes": "All checks share check.py; see DESIGN.md. Evidence is rewritten by every run.",
}
with open(os.path.join(ROOT, "MANIFEST.json"), "w") as f:
    json.dump(m, f, indent=1)
    f.write("\n")
print("wrote MANIFEST.json with", len(checks), "checks,", len(na), "not_applicable")
