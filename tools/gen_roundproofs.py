#!/usr/bin/env python3
"""Writes the 52 per-exponent lemmas of lean/CvssVerif/Proofs/F64RoundFn.lean (round_case_0 .. round_case_51); the header, `round_pos` and
`round_small_and_large` of that file are hand-written.  Kept for reference: the committed file is the result."""
T52 = 1 << 52
for k in range(52):
    K, E = 52 - k, 1023 + k
    H, P, top = "2 ^ %d" % (K - 1), "2 ^ %d" % K, "2 ^ %d" % (k + 1)
    print(f"theorem round_case_{k}: pattern ({E})*2^52 + f, half = {H}, mask = {P} - 1, carry at N = {top}")
