#!/bin/bash
# regenerates every lean/CvssVerif/Generated/*.lean from /repo as it is now (run on the clean tree before committing: a check that
# ran against a patched /repo leaves the patched tree's translation behind)
set -e
cd "$(dirname "$0")/.."
export GOFLAGS=-mod=mod GOPROXY=off GOSUMDB=off GOTOOLCHAIN=local
G=lean/CvssVerif/Generated
.build/extract /repo $G/Names.lean >/dev/null
.build/effects /repo $G/Effects.lean >/dev/null
.build/formulas /repo $G/Formulas.lean go/formulas/reference.lean >/dev/null
.build/tables /repo $G/Tables.lean go/tables/reference.lean >/dev/null
.build/decoders /repo $G/Decoders.lean go/decoders/reference.lean >/dev/null
.build/wiring /repo $G/Wiring.lean go/wiring/reference.lean >/dev/null
.build/glue /repo $G/Glue.lean go/glue/reference.lean >/dev/null
git -C /repo status --short | grep -q . && echo "WARNING: /repo is not clean" || true
git status --short $G
