#!/usr/bin/env python3
"""Derives the candidate known-findings lists for C04/C05 by running the machinery (implementation vs
specification oracle) on the complete v2 base domain and on all (base, CR, IR, AR) tuples.  Prints JSON.
Used once to write known_findings.json after each entry was confirmed; never run by the checks."""
import json, os, sys
sys.path.insert(0, os.path.dirname(os.path.dirname(os.path.abspath(__file__))))
from vlib import core, runner, streams as S, judge

core.build_harness()
out = {}
for prop, ops in (("C04", S.base2_all(levels=(0,))), ("C05", S.env2_adjusted_all())):
    res = runner.run_decode_stream(prop, "list", ops)
    items = []
    for op, msg, impl, spec in res.violations:
        v = core.unhx(op.split(" ")[2]).decode()
        g = core.parse_kv(impl)
        s = g["s"].split(",")
        toks = v.split("/")
        if prop == "C04":
            key = "/".join(toks[:6]); got = judge.bits_tenths(s[0])
        else:
            key = "/".join(toks[:6]) + "|" + "/".join(t for t in toks if t[:3] in ("CR:", "IR:", "AR:")); got = judge.bits_tenths(s[2])
        items.append({"key": key, "got": got, "msg": msg})
    out[prop] = items
    print(prop, len(ops), "ops", len(items), "failing", "mismatch", len(res.mismatch), file=sys.stderr)
json.dump(out, open(os.path.join(core.BUILD, "findings_candidates.json"), "w"), indent=1)
