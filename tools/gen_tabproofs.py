#!/usr/bin/env python3
"""Writes lean/CvssVerif/Proofs/Tables.lean: one equality `source-translated metric function = model function` per
function of the per-metric types (the expectations are the hand-written table below; the proofs try the script for the
pinned tree first and a generic case analysis second).  Re-running reproduces the committed file."""
import os

V3 = [("AttackVector", "AV", "base"), ("AttackComplexity", "AC", "base"), ("PrivilegesRequired", "PR", "base"), ("UserInteraction", "UI", "base"),
      ("Scope", "S", "base"), ("ConfidentialityImpact", "C", "base"), ("IntegrityImpact", "I", "base"), ("AvailabilityImpact", "A", "base"),
      ("Exploitability", "E", "opt"), ("RemediationLevel", "RL", "opt"), ("ReportConfidence", "RC", "opt"),
      ("ConfidentialityRequirement", "CR", "opt"), ("IntegrityRequirement", "IR", "opt"), ("AvailabilityRequirement", "AR", "opt"),
      ("ModifiedAttackVector", "MAV", "opt"), ("ModifiedAttackComplexity", "MAC", "opt"), ("ModifiedPrivilegesRequired", "MPR", "opt"),
      ("ModifiedUserInteraction", "MUI", "opt"), ("ModifiedScope", "MS", "opt"), ("ModifiedConfidentialityImpact", "MC", "opt"),
      ("ModifiedIntegrityImpact", "MI", "opt"), ("ModifiedAvailabilityImpact", "MA", "opt")]
V3_VALUE0 = ["AV", "AC", "UI", "C", "I", "A", "E", "RL", "RC", "CR", "IR", "AR"]
V2 = [("AccessVector", "AV", "base"), ("AccessComplexity", "AC", "base"), ("Authentication", "Au", "base"), ("ConfidentialityImpact", "C", "base"),
      ("IntegrityImpact", "I", "base"), ("AvailabilityImpact", "A", "base"), ("Exploitability", "E", "opt"), ("RemediationLevel", "RL", "opt"),
      ("ReportConfidence", "RC", "opt"), ("CollateralDamagePotential", "CDP", "opt"), ("TargetDistribution", "TD", "opt"),
      ("ConfidentialityRequirement", "CR", "opt"), ("IntegrityRequirement", "IR", "opt"), ("AvailabilityRequirement", "AR", "opt")]

CODES = ["X", "N", "L", "H", "P", "A", "R", "U", "C", "O", "T", "W", "F", "M", "ND", "POC", "OF", "TF", "UC", "UR", "LM", "MH", "S", "3.0", "3.1"]


def bl(c):
    return "([" + ", ".join(str(x) for x in c.encode()) + "] : Bytes)"


def header():
    facts = []
    for i in range(7):
        facts.append(f"     have : (({i}:Int) == $v) = false := by simp; omega")
        facts.append(f"     have : ($v == ({i}:Int)) = false := by simp; omega")
        facts.append(f"     have : ¬ ($v = ({i}:Int)) := by omega")
        facts.append(f"     have : ¬ (({i}:Int) = $v) := by omega")
    sc = ""
    for i, c in enumerate(CODES):
        sc += (f"by_cases h{i} : $s = {bl(c)}\n   · subst h{i}; first | rfl | decide\n"
               f"   have : ({bl(c)} == $s) = false := by rw [beq_eq_false_iff_ne]; exact fun e => h{i} e.symm\n"
               f"   have : ($s == {bl(c)}) = false := by rw [beq_eq_false_iff_ne]; exact h{i}\n   ")
    sc += "simp [*]"
    return '''/- GENERATED ONCE by tools/gen_tabproofs.py (committed; re-running the script reproduces it).

   The per-metric functions of v3/metric and v2/metric as translated from the source text on every run
   (`Generated/Tables.lean`, go/tables) are the model's: `GetXxx` is `Metric.get` on the model's code table, `String()` is
   `Metric.str`, `Value(…)` is `value0`/`valuePR`/`valueMPR`/`valueMAV`/…/`V2.value`, the validity predicates are what
   `getError…` tests, `IsChanged` is `msIsChanged`.  Every equality holds for ALL strings and ALL integers (also outside
   the enumerations).  These are the primitives of the tie by translation of the score functions (`Proofs/Formulas.lean`)
   and the tables C20 is about.

   Each proof tries the script written for the pinned tree first and then a generic one that does not depend on the shape
   of the Go body: unfold everything down to the table literals, split an integer argument into the enumeration values
   0..6 and "none of them" (a string argument into every code of the two specifications and "none of them"), and
   evaluate. -/
import CvssVerif.Generated.Tables
import CvssVerif.Model.V3
import CvssVerif.Model.V2

namespace CvssVerif.TableTie
open CvssVerif CvssVerif.GoMap

theorem get_tie (m : Metric) (t : List (Int × Bytes)) (h : t = m.codes) (s : Bytes) :
    (match mapRev t s with | some k => k | none => (0 : Int)) = m.get s := by
  subst h; unfold mapRev Metric.get; cases List.find? (fun p => p.2 == s) m.codes <;> rfl

theorem str_tie (m : Metric) (t : List (Int × Bytes)) (h : t = m.codes) (v : Int) :
    (match mapGet t v with | some s => s | none => ([] : Bytes)) = m.str v := by
  subst h; unfold mapGet Metric.str; cases List.find? (fun p => p.1 == v) m.codes <;> rfl

theorem val_tie (t : List (Int × Nat)) (d : Nat) (v : Int) :
    (match mapGet t v with | some s => s | none => d) = wlookup t d v := by
  unfold mapGet wlookup; cases List.find? (fun p => p.1 == v) t <;> rfl

theorem mem_tie (t : List (Int × Nat)) (v : Int) : mapMem t v = wmem t v := rfl

/-- unfold everything down to `List.find?`/`List.any` over literal tables -/
macro "tab_unfold" : tactic => `(tactic|
  simp only [gtab, GoMap.mapGet, GoMap.mapGetD, GoMap.mapMem, GoMap.mapRev, Metric.get, Metric.str, wlookup, wmem,
     V3.M3.spec, V3.value0, V3.valuePR, V3.valueMPR, V3.valueMAV, V3.valueMAC, V3.valueMUI, V3.valueMCIA, V3.msIsChanged, V3.isValid,
     V3.wAV, V3.wAC, V3.wPRU, V3.wPRC, V3.wUI, V3.wCIA, V3.wE, V3.wRL, V3.wRC, V3.wReq, V3.wMAV, V3.wMAC, V3.wMPRU, V3.wMPRC, V3.wMUI, V3.wMCIA,
     V3.verStr, V3.verGet, V3.verLabels, V3.severityName,
     V2.M2.spec, V2.value, V2.wAV, V2.wAC, V2.wAu, V2.wCIA, V2.wE, V2.wRL, V2.wRC, V2.wCDP, V2.wTD, V2.wReq, V2.severityName,
     F64.one])

/-- an integer argument is one of the enumeration values 0..6 or none of them; in the last case every comparison with
    an enumeration constant is false -/
macro "key_cases" v:ident : tactic => `(tactic|
  (rcases (by omega : $v = 0 ∨ $v = 1 ∨ $v = 2 ∨ $v = 3 ∨ $v = 4 ∨ $v = 5 ∨ $v = 6 ∨ ($v < 0 ∨ 6 < $v)) with
      rfl | rfl | rfl | rfl | rfl | rfl | rfl | h
   all_goals try (
''' + "\n".join(facts) + ''')))

/-- a string argument is one of the value codes / version labels of the two specifications or none of them -/
macro "str_cases" s:ident : tactic => `(tactic|
  (''' + sc + '''))

macro "tab_close" : tactic => `(tactic| all_goals first | rfl | decide | (simp_all; done))

'''


def thm(name, args, lhs, rhs, pinned, generic):
    a = " ".join("(%s : %s)" % (n, t) for n, t in args)
    alts = []
    if pinned:
        alts.append("(" + pinned + "; done)")
    alts.append("(tab_unfold; done)")
    alts.append("(" + generic + "; done)")
    return "theorem %s %s : %s = %s := by\n  first\n%s\n\n" % (name, a, lhs, rhs, "\n".join("    | " + x for x in alts))


def gen1(v):
    return "tab_unfold; key_cases %s <;> tab_close" % v


def gen2(a, b):
    return "tab_unfold; key_cases %s <;> key_cases %s <;> tab_close" % (a, b)


def section(ver, types):
    g = "Gen.T%d." % ver
    spec = "(V%d.M%d.spec .%%s)" % (ver, ver)
    out = "/-! ### v%d -/\nsection v%d\nopen CvssVerif.V%d\n\n" % (ver, ver, ver)
    I, B = "Int", "Bytes"
    for (T, m, kind) in types:
        sp = spec % m
        out += thm("Get%s_%d" % (T, ver), [("s", B)], g + "Get%s s" % T, sp + ".get s",
                   "unfold %sGet%s; exact get_tie _ _ (by decide) s" % (g, T), "tab_unfold; str_cases s")
        out += thm("%s_String_%d" % (T, ver), [("v", I)], g + "%s_String v" % T, sp + ".str v",
                   "unfold %s%s_String; exact str_tie _ _ (by decide) v" % (g, T), gen1("v"))
        if ver == 3:
            if kind == "base":
                out += thm("%s_IsUnknown_3" % T, [("v", I)], g + "%s_IsUnknown v" % T, "(v == 0)", "rfl", gen1("v"))
            else:
                out += thm("%s_IsValid_3" % T, [("v", I)], g + "%s_IsValid v" % T, "V3.isValid .%s v" % m,
                           "unfold %s%s_IsValid V3.isValid; first | rfl | exact mem_tie _ _" % (g, T), gen1("v"))
            if m in V3_VALUE0:
                out += thm("%s_Value_3" % T, [("v", I)], g + "%s_Value v" % T, "V3.value0 .%s v" % m,
                           "unfold %s%s_Value V3.value0; exact val_tie _ _ v" % (g, T), gen1("v"))
        else:
            if kind == "base":
                # (sic) the v2 IsUnknown methods return "is not the unknown value"
                out += thm("%s_IsUnknown_2" % T, [("v", I)], g + "%s_IsUnknown v" % T, "(v != 0)", "rfl", gen1("v"))
            else:
                out += thm("%s_IsValid_2" % T, [("v", I)], g + "%s_IsValid v" % T, "(v != 0)", "rfl", gen1("v"))
                out += thm("%s_IsDefined_2" % T, [("v", I)], g + "%s_IsDefined v" % T, "(v != 0 && v != 1)", "rfl", gen1("v"))
            out += thm("%s_Value_2" % T, [("v", I)], g + "%s_Value v" % T, "V2.value .%s v" % m,
                       "unfold %s%s_Value V2.value; exact val_tie _ _ v" % (g, T), gen1("v"))
    if ver == 3:
        out += thm("Scope_IsChanged_3", [("s", I)], g + "Scope_IsChanged s", "(s == 2)", "rfl", gen1("s"))
        out += thm("ModifiedScope_IsChanged_3", [("ms", I), ("s", I)], g + "ModifiedScope_IsChanged ms s", "V3.msIsChanged ms s",
                   "unfold %sModifiedScope_IsChanged V3.msIsChanged; simp only [Scope_IsChanged_3]; split <;> simp_all" % g, gen2("ms", "s"))
        out += thm("PrivilegesRequired_Value_3", [("pr", I), ("s", I)], g + "PrivilegesRequired_Value pr s", "V3.valuePR pr s",
                   "unfold %sPrivilegesRequired_Value V3.valuePR; simp only [val_tie]; split <;> (try split) <;> simp_all" % g, gen2("pr", "s"))
        for (T, m, b) in [("ModifiedAttackVector", "MAV", "AV"), ("ModifiedAttackComplexity", "MAC", "AC"), ("ModifiedUserInteraction", "MUI", "UI")]:
            out += thm("%s_Value_3" % T, [("mv", I), ("bv", I)], g + "%s_Value mv bv" % T, "V3.value%s mv bv" % m,
                       "unfold %s%s_Value V3.value%s; simp only [val_tie]; split <;> simp_all <;> rfl" % (g, T, m), gen2("mv", "bv"))
        for (T, m) in [("ModifiedConfidentialityImpact", "MC"), ("ModifiedIntegrityImpact", "MI"), ("ModifiedAvailabilityImpact", "MA")]:
            out += thm("%s_Value_3" % T, [("mv", I), ("bv", I)], g + "%s_Value mv bv" % T, "V3.valueMCIA .%s mv bv" % m,
                       "unfold %s%s_Value V3.valueMCIA; simp only [val_tie, %s_String_3, ModifiedAttackComplexity_String_3]; split <;> split <;> simp_all <;> rfl" % (g, T, T),
                       gen2("mv", "bv"))
        out += ("theorem ModifiedPrivilegesRequired_Value_3 (mpr ms s pr : Int) :\n"
                "    Gen.T3.ModifiedPrivilegesRequired_Value mpr ms s pr = V3.valueMPR mpr ms s pr := by\n"
                "  unfold Gen.T3.ModifiedPrivilegesRequired_Value V3.valueMPR\n"
                "  simp only [ModifiedScope_IsChanged_3, PrivilegesRequired_Value_3]\n"
                "  generalize V3.msIsChanged ms s = ch\n"
                "  cases ch <;> (try tab_unfold) <;> key_cases mpr <;> tab_close\n\n")
        out += thm("Version_String_3", [("v", I)], g + "Version_String v", "V3.verStr v", None, gen1("v"))
        out += thm("get_3", [("s", B)], g + "get s", "V3.verGet s", None, "tab_unfold; str_cases s")
        out += thm("Severity_String_3", [("v", I)], g + "Severity_String v", "V3.severityName v", None, gen1("v"))
    else:
        out += thm("Severity_String_2", [("v", I)], g + "Severity_String v", "V2.severityName v", None, gen1("v"))
    out += ("/-- the obligation of the reverse look-ups: in every code table searched by a `for k, v := range` loop the codes are\n"
            "    pairwise different, so the Go loop (unspecified iteration order) finds the entry the first-match search finds -/\n"
            "theorem revTables_nodup_%d : ∀ t ∈ %srevTables, (t.2.map (·.2)).Nodup := by decide\n\n" % (ver, g))
    out += "end v%d\n\n" % ver
    return out


def main():
    here = os.path.dirname(os.path.dirname(os.path.abspath(__file__)))
    txt = header() + section(3, V3) + section(2, V2) + "end CvssVerif.TableTie\n"
    open(os.path.join(here, "lean", "CvssVerif", "Proofs", "Tables.lean"), "w").write(txt)


if __name__ == "__main__":
    main()
