#!/bin/bash
# runs every registered quick (or thorough) check on the current tree; one summary line per property
tier=${1:-quick}
cd "$(dirname "$0")/.."
for p in C01 C02 C03 C04 C05 C06 C07 C08 C09 C10 C11 C12 C13 C14 C15 C16 C17 C18 C19 C20; do
  python3 check.py $p --tier $tier 2>&1 | grep -E "^(PASS|FAIL|VIOLATION|KNOWN-FINDING|BUILD-ERROR)" | cut -c1-220
done
