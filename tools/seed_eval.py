#!/usr/bin/env python3
"""Confirms a seeded defect delivered by a sub-agent and measures which checks catch it.

  seed_eval.py <ID> <srcdir> <demo-dir-in-repo> [--checks C01,C07,...]

1. in a scratch worktree of /repo (outside /repo and /verif): the patch applies, the library builds and
   the unchanged test suite passes with it; the demonstration fails with the patch and passes without;
2. stores patch.diff, the demonstration and meta.json under /verif/seeded/<ID>/;
3. applies the patch to /repo, runs the requested quick checks, records which report a VIOLATION,
   and restores /repo (git checkout) whatever happens.
"""
import glob
import json
import os
import shutil
import subprocess
import sys
import time

VERIF = os.path.dirname(os.path.dirname(os.path.abspath(__file__)))
ENV = dict(os.environ, GOFLAGS="-mod=mod", GOPROXY="off", GOSUMDB="off", GOTOOLCHAIN="local")
CHEAP = ["C01", "C06", "C07", "C08", "C09", "C10", "C11", "C12", "C13", "C14", "C15", "C16", "C17", "C18", "C19", "C20"]
REPO = "/repo"      # where the patch is applied for the detection runs (a scratch copy with --repo)
RUNV = VERIF        # the copy of /verif whose checks are run (--verif)


def sh(cmd, cwd=None, timeout=1800):
    p = subprocess.run(cmd, cwd=cwd, env=ENV, stdout=subprocess.PIPE, stderr=subprocess.STDOUT, text=True, timeout=timeout, shell=isinstance(cmd, str))
    return p.returncode, p.stdout


def _term(*_):
    raise KeyboardInterrupt()


def main():
    global REPO, RUNV
    import signal
    signal.signal(signal.SIGTERM, _term)
    signal.signal(signal.SIGINT, _term)
    sid, src, demodir = sys.argv[1], sys.argv[2], sys.argv[3]
    if "--repo" in sys.argv:
        REPO = sys.argv[sys.argv.index("--repo") + 1]
    if "--verif" in sys.argv:
        RUNV = sys.argv[sys.argv.index("--verif") + 1]
    ENV["VERIF_REPO"] = REPO
    checks = None
    if "--checks" in sys.argv:
        checks = sys.argv[sys.argv.index("--checks") + 1].split(",")
    prop = sid.split("-")[0]
    patch = os.path.join(src, "patch.diff")
    demos = [f for f in glob.glob(os.path.join(src, "*")) if f.endswith("_test.go") or f.endswith(".go")]
    wt = "/tmp/sv-" + sid
    sh(["git", "-C", "/repo", "worktree", "remove", "--force", wt])
    for _ in range(10):
        rc, out = sh(["git", "-C", "/repo", "worktree", "add", "--detach", wt, "HEAD"])
        if rc == 0:
            break
        time.sleep(2)
    meta = {"id": sid, "property": prop, "confirmed": False, "ran": []}
    try:
        rc, out = sh(["git", "apply", patch], cwd=wt)
        meta["ran"].append({"cmd": "git apply patch.diff", "rc": rc})
        assert rc == 0, "patch does not apply: " + out
        rc, out = sh("go build ./... && go test -vet=off -count=1 ./...", cwd=wt)
        meta["ran"].append({"cmd": "go build ./... && go test -vet=off -count=1 ./... (with the change)", "rc": rc, "tail": out[-400:]})
        assert rc == 0, "existing suite fails with the change:\n" + out[-1500:]
        for d in demos:
            shutil.copy(d, os.path.join(wt, demodir))
        race = "CGO_ENABLED=1 go test -race" if prop == "C16" else "go test"     # a pure data race needs the detector to show
        run = "%s -vet=off -count=1 -run 'Test%s|TestDemo|Demo' ./%s/" % (race, prop, demodir)
        rc1, out1 = sh(run, cwd=wt)
        meta["ran"].append({"cmd": run + " (with the change)", "rc": rc1, "tail": out1[-600:]})
        sh(["git", "apply", "-R", patch], cwd=wt)
        rc2, out2 = sh(run, cwd=wt)
        meta["ran"].append({"cmd": run + " (without the change)", "rc": rc2, "tail": out2[-300:]})
        assert rc1 != 0, "demonstration does not fail with the change"
        assert rc2 == 0, "demonstration does not pass without the change:\n" + out2[-1500:]
        assert "no tests to run" not in out2, "demonstration did not run"
        meta["confirmed"] = True
    except AssertionError as e:
        meta["problem"] = str(e)
    finally:
        sh(["git", "-C", "/repo", "worktree", "remove", "--force", wt])
    dst = os.path.join(VERIF, "seeded", sid)
    os.makedirs(dst, exist_ok=True)
    shutil.copy(patch, os.path.join(dst, "patch.diff"))
    for d in demos:
        shutil.copy(d, dst)
    if os.path.exists(os.path.join(src, "notes.md")):
        shutil.copy(os.path.join(src, "notes.md"), os.path.join(dst, "agent-notes.md"))
    meta["demo_dir"] = demodir
    # detection
    detected = {}
    if meta["confirmed"]:
        todo = checks or sorted(set(CHEAP + [prop]))
        rc, out = sh(["git", "-C", REPO, "status", "--porcelain"])
        assert out.strip() == "", REPO + " is not clean"
        try:
            rc, out = sh(["git", "-C", REPO, "apply", patch])
            assert rc == 0, out
            for c in todo:
                t0 = time.time()
                rc, out = sh(["python3", os.path.join(RUNV, "check.py"), c], cwd=RUNV, timeout=3600)
                line = [l for l in out.splitlines() if l.startswith("VIOLATION")]
                detected[c] = {"exit": rc, "violation": (line[0].replace(RUNV, "/verif") if line else None),
                               "no_failing_input": bool(line and line[0].rstrip().endswith("no-failing-input-found")),
                               "wall_s": round(time.time() - t0, 1)}
                if rc not in (0, 1):
                    detected[c]["output_tail"] = out[-600:]
                print(sid, c, rc, line[0] if line else "-", flush=True)
        finally:
            sh(["git", "-C", REPO, "checkout", "--", "."])
            sh(["git", "-C", REPO, "clean", "-fdq"])      # files the patch added
            shutil.rmtree(os.path.join(RUNV, "replays"), ignore_errors=True)
            if RUNV == VERIF:
                sh(["git", "checkout", "--", "evidence"], cwd=VERIF)
    meta["checks"] = detected
    meta["caught_by"] = sorted(c for c, d in detected.items() if d["exit"] == 1 and d["violation"])
    meta["caught_with_failing_input"] = sorted(c for c, d in detected.items() if d["exit"] == 1 and d["violation"] and not d["no_failing_input"])
    with open(os.path.join(dst, "meta.json"), "w") as f:
        json.dump(meta, f, indent=1)
    print(sid, "confirmed" if meta["confirmed"] else "NOT CONFIRMED: " + meta.get("problem", ""), "caught by", meta["caught_by"], flush=True)


if __name__ == "__main__":
    main()
