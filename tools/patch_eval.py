#!/usr/bin/env python3
"""patch_eval.py <ID> <patch.diff> [--checks C01,...] [--slot N]
Applies a patch (e.g. a behaviour-preserving refactoring) to a scratch worktree of /repo, runs the quick checks of a
scratch copy of /verif against it, and prints/stores which of them raise an alarm.  /repo and /verif are not touched.
Result: /verif/seeded/harmless/<ID>.json"""
import json
import os
import shutil
import subprocess
import sys
import time

VERIF = os.path.dirname(os.path.dirname(os.path.abspath(__file__)))
ENV = dict(os.environ, GOFLAGS="-mod=mod", GOPROXY="off", GOSUMDB="off", GOTOOLCHAIN="local")
ALL = ["C%02d" % i for i in range(1, 21)]


def sh(cmd, cwd=None, timeout=3600):
    p = subprocess.run(cmd, cwd=cwd, env=ENV, stdout=subprocess.PIPE, stderr=subprocess.STDOUT, text=True, timeout=timeout)
    return p.returncode, p.stdout


def main():
    pid, patch = sys.argv[1], sys.argv[2]
    checks = ALL
    if "--checks" in sys.argv:
        checks = sys.argv[sys.argv.index("--checks") + 1].split(",")
    slot = sys.argv[sys.argv.index("--slot") + 1] if "--slot" in sys.argv else pid
    repo, ver = "/tmp/pe/r-%s" % slot, "/tmp/pe/v-%s" % slot
    os.makedirs("/tmp/pe", exist_ok=True)
    sh(["git", "-C", "/repo", "worktree", "remove", "--force", repo])
    shutil.rmtree(ver, ignore_errors=True)
    for _ in range(10):
        rc, out = sh(["git", "-C", "/repo", "worktree", "add", "--detach", repo, "HEAD"])
        if rc == 0:
            break
        time.sleep(2)
    res = {"id": pid, "checks": {}}
    try:
        shutil.copytree(VERIF, ver, symlinks=True)
        gm = os.path.join(ver, "go", "harness", "go.mod")
        txt = open(gm).read().replace("=> /repo", "=> " + repo)
        open(gm, "w").write(txt)
        rc, out = sh(["git", "apply", patch], cwd=repo)
        assert rc == 0, "patch does not apply: " + out
        rc, out = sh(["bash", "-c", "go build ./... && go test -vet=off -count=1 ./..."], cwd=repo)
        res["suite"] = "pass" if rc == 0 else out[-800:]
        rc2, _ = sh(["go", "build", "-tags", "verif", "./..."], cwd=repo)
        res["compiles_with_hooks"] = rc2 == 0
        env = dict(ENV, VERIF_REPO=repo)
        for c in checks:
            t0 = time.time()
            p = subprocess.run(["python3", os.path.join(ver, "check.py"), c], cwd=ver, env=env, stdout=subprocess.PIPE,
                               stderr=subprocess.STDOUT, text=True, timeout=3600)
            lines = [l for l in p.stdout.splitlines() if l.startswith(("VIOLATION", "BUILD-ERROR"))]
            res["checks"][c] = {"exit": p.returncode, "alarm": (lines[0].replace(ver, "/verif") if lines else None), "wall_s": round(time.time() - t0, 1)}
            if p.returncode != 0:
                rp = [w for w in (lines[0].split() if lines else []) if w.startswith("replay=")]
                if rp and os.path.exists(rp[0][7:]):
                    try:
                        d = json.load(open(rp[0][7:]))
                        res["checks"][c]["why"] = (d.get("why") or "; ".join(d.get("broken_obligations", []))[:600] or
                                                   json.dumps(d.get("correspondence_mismatches", [])[:1])[:600])
                    except Exception:
                        pass
            print(pid, c, p.returncode, lines[0][:150] if lines else "-", flush=True)
    finally:
        shutil.rmtree(ver, ignore_errors=True)
        sh(["git", "-C", "/repo", "worktree", "remove", "--force", repo])
    dst = os.path.join(VERIF, "seeded", "harmless")
    os.makedirs(dst, exist_ok=True)
    prev = os.path.join(dst, pid + ".json")
    if "--checks" in sys.argv and os.path.exists(prev):  # a partial re-evaluation keeps the other checks' results
        try:
            old = json.load(open(prev)).get("checks", {})
            old.update(res["checks"])
            res["checks"] = dict(sorted(old.items()))
        except Exception:
            pass
    res["alarms"] = sorted(c for c, d in res["checks"].items() if d["exit"] != 0)
    shutil.copy(patch, os.path.join(dst, pid + ".diff"))
    with open(os.path.join(dst, pid + ".json"), "w") as f:
        json.dump(res, f, indent=1)
    print(pid, "alarms:", res["alarms"], flush=True)


if __name__ == "__main__":
    main()
