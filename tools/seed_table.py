#!/usr/bin/env python3
"""Rewrites the table of DESIGN.md §12 (between the markers) from seeded/*/meta.json and seeded/harmless/*.json."""
import glob
import json
import os
import re

V = os.path.dirname(os.path.dirname(os.path.abspath(__file__)))


def first_line(path):
    try:
        for l in open(path, encoding="utf-8"):
            l = l.strip()
            if l and not l.startswith("#"):
                return l
    except OSError:
        pass
    return ""


def what(d):
    p = os.path.join(d, "agent-notes.md")
    if not os.path.exists(p):
        return ""
    txt = open(p, encoding="utf-8").read()
    txt = re.sub(r"^demo_dir:[^\n]*\n+", "", txt)
    m = re.search(r"(?:The change|Change)[^\n]*\n+(.*?)(?:\n\n|\n#)", txt, re.S)
    t = (m.group(1) if m else txt[:300]).replace("\n", " ")
    t = re.sub(r"\s+", " ", t).replace("|", "/")
    return t[:170] + ("…" if len(t) > 170 else "")


rows = []
for d in sorted(glob.glob(os.path.join(V, "seeded", "C*"))):
    mp = os.path.join(d, "meta.json")
    if not os.path.exists(mp):
        continue
    m = json.load(open(mp))
    ch = m.get("checks", {})
    own = m["property"]
    conc = sorted(c for c, v in ch.items() if v.get("exit") == 1 and not v.get("no_failing_input"))
    nofi = sorted(c for c, v in ch.items() if v.get("exit") == 1 and v.get("no_failing_input"))
    quiet = sorted(c for c, v in ch.items() if v.get("exit") == 0)
    rows.append("| %s | %s | %s | %s | %s | %s |" % (
        m["id"], "yes" if m.get("confirmed") else "NO: " + m.get("problem", "")[:40], what(d),
        ", ".join(conc) or "—", ", ".join(nofi) or "—", ", ".join(quiet) or "—"))
hrows = []
for f in sorted(glob.glob(os.path.join(V, "seeded", "harmless", "*.json"))):
    m = json.load(open(f))
    hrows.append("| %s | %s | %s | %s |" % (m["id"], m.get("suite", "?")[:20], "yes" if m.get("compiles_with_hooks") else "no (fallback build)",
                                           ", ".join(m.get("alarms", [])) or "none (%d checks)" % len(m.get("checks", {}))))
tab = ["| seed | confirmed | change | alarm with failing input | alarm `no-failing-input-found` | checks run, quiet |", "|---|---|---|---|---|---|"] + rows
tab += ["", "Behaviour-preserving refactorings (no check may alarm):", "", "| refactoring | suite | compiles with hooks | alarms |", "|---|---|---|---|"] + hrows
p = os.path.join(V, "DESIGN.md")
s = open(p, encoding="utf-8").read()
a, b = "<!-- seed-table:begin -->", "<!-- seed-table:end -->"
if a not in s:
    s = s.replace("(table filled in by the evaluation runs — see the end of this file)", a + "\n" + b)
i, j = s.index(a) + len(a), s.index(b)
s = s[:i] + "\n" + "\n".join(tab) + "\n" + s[j:]
open(p, "w", encoding="utf-8").write(s)
print("%d seeds, %d refactorings" % (len(rows), len(hrows)))
