#!/bin/bash
# seed_matrix.sh <K> <listfile>: evaluates the seeds of <listfile> (lines: ID SRCDIR DEMODIR [CHECKS,comma,separated]) with K parallel
# evaluators, each on its own scratch copy of /verif and its own scratch worktree of /repo under /tmp/ev
# (so that /repo and /verif themselves stay untouched); results go to /verif/seeded/<ID>/meta.json.
set -u
K=$1; LIST=$2
mkdir -p /tmp/ev
for k in $(seq 1 $K); do
  rm -rf /tmp/ev/v$k; git -C /repo worktree remove --force /tmp/ev/r$k 2>/dev/null
  git -C /repo worktree add --detach /tmp/ev/r$k HEAD >/dev/null 2>&1
  cp -a /verif /tmp/ev/v$k
  sed -i "s#=> /repo#=> /tmp/ev/r$k#" /tmp/ev/v$k/go/harness/go.mod
done
n=0
while read -r id src demo checks; do
  [ -z "$id" ] && continue
  n=$((n+1)); k=$(( (n-1) % K + 1 ))
  echo "$id $src $demo $checks" >> /tmp/ev/list$k
done < "$LIST"
for k in $(seq 1 $K); do
  ( while read -r id src demo checks; do
      python3 /verif/tools/seed_eval.py "$id" "$src" "$demo" --repo /tmp/ev/r$k --verif /tmp/ev/v$k ${checks:+--checks $checks}
    done < /tmp/ev/list$k ) > /tmp/ev/log$k 2>&1 &
done
wait
for k in $(seq 1 $K); do
  rm -rf /tmp/ev/v$k; git -C /repo worktree remove --force /tmp/ev/r$k; rm -f /tmp/ev/list$k
done
echo MATRIX-DONE
